//! C02 / C04 / C07 harnesses for src/parser_aux.rs (cross-reference stream decoding).
use super::*;
#[allow(unused_imports)]
use verif_support;

#[derive(Clone, Copy, PartialEq)]
enum RefEntry {
    Absent,
    Normal(u32, u16),
    Compressed(u32, u16),
}

fn be(bytes: &[u8], pos: usize, w: usize) -> u32 {
    let mut v: u32 = 0;
    let mut k = 0;
    while k < w {
        v = (v << 8) | bytes[pos + k] as u32;
        k += 1;
    }
    v
}

/// ISO 32000-1 7.5.8.2/7.5.8.3, written from the text: entries of widths W, subsections given by
/// Index (default [0 Size]); type field defaults to 1 when W[0] = 0; type 0 = free, 1 = in use
/// (offset, generation default 0), 2 = compressed (stream number, index); other types are ignored.
/// Returns None if the data is too short for the declared entries (then only "an error or a
/// value, no panic" is required).
fn ref_decode<const C: usize, const IDS: usize>(
    content: &[u8; C], w: [usize; 3], sections: &[(i64, i64)], nsec: usize, out: &mut [RefEntry; IDS],
) -> bool {
    let mut pos = 0usize;
    let esz = w[0] + w[1] + w[2];
    let mut s = 0;
    while s < nsec {
        let (start, count) = sections[s];
        let mut j: i64 = 0;
        while j < count {
            if pos + esz > C {
                return false;
            }
            let t = if w[0] == 0 { 1 } else { be(content, pos, w[0]) };
            let f2 = be(content, pos + w[0], w[1]);
            let f3 = be(content, pos + w[0] + w[1], w[2]);
            pos += esz;
            let id = (start + j) as usize;
            if id < IDS {
                if t == 1 {
                    out[id] = RefEntry::Normal(f2, if w[2] == 0 { 0 } else { f3 as u16 });
                } else if t == 2 {
                    out[id] = RefEntry::Compressed(f2, f3 as u16);
                }
            }
            j += 1;
        }
        s += 1;
    }
    true
}

fn entry_of(x: &Xref, id: u32) -> RefEntry {
    match x.get(id) {
        None => RefEntry::Absent,
        Some(XrefEntry::Normal { offset, generation }) => RefEntry::Normal(*offset, *generation),
        Some(XrefEntry::Compressed { container, index }) => RefEntry::Compressed(*container, *index),
        Some(_) => RefEntry::Absent,
    }
}

fn int_array(v: &[i64]) -> Object {
    let mut a = Vec::with_capacity(8);
    let mut i = 0;
    while i < v.len() {
        a.push(Object::Integer(v[i]));
        i += 1;
    }
    Object::Array(a)
}

/// One subsection. W each 0..=MAXW, Index present ([start count], start 0..=3, count 0..=2) or absent
/// (default [0 Size], Size 0..=2), C symbolic content bytes.
fn xrefstm_harness<const C: usize, const MAXW: usize, const HAS_INDEX: bool>() {
    let w0: usize = kani::any();
    let w1: usize = kani::any();
    let w2: usize = kani::any();
    kani::assume(w0 <= MAXW && w1 <= MAXW && w2 <= MAXW);
    let has_index: bool = HAS_INDEX;
    let start: i64 = kani::any();
    let count: i64 = kani::any();
    let size: i64 = kani::any();
    kani::assume(start >= 0 && start <= 3 && count >= 0 && count <= 2 && size >= 0 && size <= 5);
    if !has_index {
        kani::assume(size <= 2);
    }
    let content: [u8; C] = kani::any();
    let mut d = Dictionary::new();
    d.set("Type", Object::Name(b"XRef".to_vec()));
    d.set("Size", size);
    d.set("W", int_array(&[w0 as i64, w1 as i64, w2 as i64]));
    if has_index {
        d.set("Index", int_array(&[start, count]));
    }
    d.set("Root", Object::Reference((1, 0)));
    let stream = Stream::new(d, content.to_vec());
    let r = decode_xref_stream(stream);
    let mut exp = [RefEntry::Absent; 6];
    let sections = [if has_index { (start, count) } else { (0, size) }];
    let complete = ref_decode::<C, 6>(&content, [w0, w1, w2], &sections, 1, &mut exp);
    match &r {
        Ok((xref, trailer)) => {
            assert!(complete, "decode succeeded although the data is shorter than the declared entries");
            let mut id = 0u32;
            while id < 6 {
                assert!(entry_of(xref, id) == exp[id as usize], "cross-reference stream entry differs from ISO 32000-1 7.5.8.3");
                id += 1;
            }
            assert!(xref.size == size as u32, "Size not carried over");
            assert!(!trailer.has(b"W") && !trailer.has(b"Index") && !trailer.has(b"Length"), "stream-only keys left in trailer");
            assert!(trailer.has(b"Root") && trailer.has(b"Size"), "trailer keys lost");
        }
        Err(_) => assert!(!complete, "well-formed cross-reference stream rejected"),
    }
    kani::cover!(r.is_ok() && has_index && count == 2 && w0 == 1 && w1 >= 1 && w2 >= 1);
    kani::cover!(r.is_ok() && !has_index && size == 2 && w0 == 0);
    std::mem::forget(r);
}

#[kani::proof]
#[kani::unwind(10)]
#[kani::stub(std::string::String::from_utf8_lossy, crate::object::verif_kani::lossy_stub)]
fn c02_xrefstm_index_c6_w2() {
    xrefstm_harness::<6, 2, true>();
}
#[kani::proof]
#[kani::unwind(10)]
#[kani::stub(std::string::String::from_utf8_lossy, crate::object::verif_kani::lossy_stub)]
fn c02_xrefstm_noindex_c6_w2() {
    xrefstm_harness::<6, 2, false>();
}
#[kani::proof]
#[kani::unwind(12)]
#[kani::stub(std::string::String::from_utf8_lossy, crate::object::verif_kani::lossy_stub)]
fn c02_xrefstm_index_c8_w4() {
    xrefstm_harness::<8, 4, true>();
}

/// Two subsections [s0 1 s1 1] with fixed widths [1 1 1]: later subsections continue in the data
/// where the previous one stopped; ids come from the Index pairs.
#[kani::proof]
#[kani::unwind(10)]
#[kani::stub(std::string::String::from_utf8_lossy, crate::object::verif_kani::lossy_stub)]
fn c02_xrefstm_two_sections() {
    let s0: i64 = kani::any();
    let s1: i64 = kani::any();
    kani::assume(s0 >= 0 && s0 <= 4 && s1 >= 0 && s1 <= 4 && s0 != s1);
    let content: [u8; 6] = kani::any();
    let mut d = Dictionary::new();
    d.set("Size", 6i64);
    d.set("W", int_array(&[1, 1, 1]));
    d.set("Index", int_array(&[s0, 1, s1, 1]));
    let r = decode_xref_stream(Stream::new(d, content.to_vec()));
    let mut exp = [RefEntry::Absent; 6];
    let complete = ref_decode::<6, 6>(&content, [1, 1, 1], &[(s0, 1), (s1, 1)], 2, &mut exp);
    assert!(complete);
    match &r {
        Ok((xref, _)) => {
            let mut id = 0u32;
            while id < 6 {
                assert!(entry_of(xref, id) == exp[id as usize], "second subsection decoded wrongly");
                id += 1;
            }
        }
        Err(_) => panic!("well-formed two-subsection stream rejected"),
    }
    kani::cover!(content[0] == 1 && content[3] == 2);
    std::mem::forget(r);
}

/// read_big_endian_integer is the inverse of the writer's `[1 4 2]` packing (u8 type, u32 be, u16 be).
#[kani::proof]
#[kani::unwind(8)]
fn c01_xrefstm_entry_packing() {
    let t: u8 = kani::any();
    let a: u32 = kani::any();
    let b: u16 = kani::any();
    let mut bytes = Vec::with_capacity(8);
    bytes.push(t);
    bytes.extend(a.to_be_bytes());
    bytes.extend(b.to_be_bytes());
    let mut cur = Cursor::new(bytes);
    let mut b1 = [0u8; 1];
    let mut b4 = [0u8; 4];
    let mut b2 = [0u8; 2];
    let r1 = read_big_endian_integer(&mut cur, &mut b1);
    let r2 = read_big_endian_integer(&mut cur, &mut b4);
    let r3 = read_big_endian_integer(&mut cur, &mut b2);
    assert!(matches!(r1, Ok(v) if v == t as u32));
    assert!(matches!(r2, Ok(v) if v == a));
    assert!(matches!(r3, Ok(v) if v == b as u32));
    kani::cover!(a > 0x0100_0000 && b > 0x0100);
    std::mem::forget((cur, r1, r2, r3));
}

/// C04: hostile W / Index / Size (any i64).  No panic, and no loop/allocation unrelated to the input
/// size: the entry loop may run at most content.len()+1 times per subsection (checked by the
/// unwinding assertion of this harness) and allocations are bounded by the allocator model (an
/// allocation above 4 KiB for an 6-byte stream fails its assertion).
#[kani::proof]
#[kani::unwind(10)]
#[kani::stub(std::alloc::alloc, verif_support::alloc4k)]
#[kani::stub(std::alloc::alloc_zeroed, verif_support::alloc_zeroed4k)]
#[kani::stub(std::alloc::realloc, verif_support::realloc4k)]
#[kani::stub(std::alloc::dealloc, verif_support::dealloc_nop)]
#[kani::stub(std::string::String::from_utf8_lossy, crate::object::verif_kani::lossy_stub)]
fn c04_xrefstm_hostile_widths() {
    let w0: i64 = kani::any();
    let w1: i64 = kani::any();
    let w2: i64 = kani::any();
    // either ordinary (<= 4) or so large that a native replay cannot satisfy the allocation
    kani::assume(w0 <= 4 || w0 >= (1i64 << 44));
    kani::assume(w1 <= 4 || w1 >= (1i64 << 44));
    kani::assume(w2 <= 4 || w2 >= (1i64 << 44));
    let content: [u8; 6] = kani::any();
    let mut d = Dictionary::new();
    d.set("Size", 2i64);
    d.set("W", int_array(&[w0, w1, w2]));
    d.set("Index", int_array(&[0, 1]));
    let r = decode_xref_stream(Stream::new(d, content.to_vec()));
    kani::cover!(r.is_ok());
    kani::cover!(r.is_err());
    std::mem::forget(r);
}

#[kani::proof]
#[kani::unwind(10)]
#[kani::stub(std::string::String::from_utf8_lossy, crate::object::verif_kani::lossy_stub)]
fn c04_xrefstm_hostile_index() {
    let start: i64 = kani::any();
    let count: i64 = kani::any();
    let size: i64 = kani::any();
    // count is either small or astronomically large (so that "loops `count` times" cannot hide inside the bound)
    kani::assume(count <= 3 || count >= (1i64 << 40));
    let w0: i64 = kani::any();
    let w1: i64 = kani::any();
    let w2: i64 = kani::any();
    kani::assume(w0 >= 0 && w0 <= 1 && w1 >= 0 && w1 <= 1 && w2 >= 0 && w2 <= 1);
    let content: [u8; 6] = kani::any();
    let mut d = Dictionary::new();
    d.set("Size", size);
    d.set("W", int_array(&[w0, w1, w2]));
    d.set("Index", int_array(&[start, count]));
    let r = decode_xref_stream(Stream::new(d, content.to_vec()));
    kani::cover!(r.is_ok());
    kani::cover!(r.is_err());
    std::mem::forget(r);
}

/// Field decoder for every width the [w0 w1 w2] array may give (0..=4 bytes): big-endian value of
/// exactly `w` bytes, reader advanced by `w`.
#[kani::proof]
#[kani::unwind(8)]
fn c02_field_decoder_widths() {
    let data: [u8; 4] = kani::any();
    // width 0: value 0, nothing consumed; then widths 1 and 3 consume the four bytes
    let mut cur = Cursor::new(data.to_vec());
    let mut b0 = [0u8; 0];
    let mut b1 = [0u8; 1];
    let mut b3 = [0u8; 3];
    let r0 = read_big_endian_integer(&mut cur, &mut b0);
    let r1 = read_big_endian_integer(&mut cur, &mut b1);
    let r3 = read_big_endian_integer(&mut cur, &mut b3);
    let r_end = read_big_endian_integer(&mut cur, &mut b1);
    assert!(matches!(r0, Ok(0)));
    assert!(matches!(r1, Ok(v) if v == data[0] as u32));
    assert!(matches!(r3, Ok(v) if v == ((data[1] as u32) << 16) | ((data[2] as u32) << 8) | data[3] as u32));
    assert!(r_end.is_err(), "reading past the end of the stream data must be an error");
    kani::cover!(data[1] == 0xFF);
    std::mem::forget((cur, r0, r1, r3, r_end));
}

// ---- decode_xref_stream with the cross-reference table's container replaced by a recorder ----------
// `Xref::insert` (std BTreeMap) is what made the earlier harnesses unreachable; the entries lopdf
// hands to it are recorded instead, so the field decoding, type dispatch, defaults and object-number
// arithmetic of decode_xref_stream itself are decided.
use std::sync::atomic::{AtomicU32, AtomicUsize, Ordering};
static REC_N: AtomicUsize = AtomicUsize::new(0);
static REC_ID: [AtomicU32; 4] = [AtomicU32::new(0), AtomicU32::new(0), AtomicU32::new(0), AtomicU32::new(0)];
static REC_KIND: [AtomicU32; 4] = [AtomicU32::new(0), AtomicU32::new(0), AtomicU32::new(0), AtomicU32::new(0)];
static REC_A: [AtomicU32; 4] = [AtomicU32::new(0), AtomicU32::new(0), AtomicU32::new(0), AtomicU32::new(0)];
static REC_B: [AtomicU32; 4] = [AtomicU32::new(0), AtomicU32::new(0), AtomicU32::new(0), AtomicU32::new(0)];

/// The cross-reference streams examined carry no Filter; decompression is outside these harnesses.
fn stub_stream_decompress(_s: &mut Stream) -> Result<()> {
    Ok(())
}

fn rec_xref_insert(_x: &mut Xref, id: u32, entry: XrefEntry) {
    let n = REC_N.load(Ordering::Relaxed);
    assert!(n < 4, "recorder full (harness bound)");
    REC_ID[n].store(id, Ordering::Relaxed);
    match entry {
        XrefEntry::Normal { offset, generation } => {
            REC_KIND[n].store(1, Ordering::Relaxed);
            REC_A[n].store(offset, Ordering::Relaxed);
            REC_B[n].store(generation as u32, Ordering::Relaxed);
        }
        XrefEntry::Compressed { container, index } => {
            REC_KIND[n].store(2, Ordering::Relaxed);
            REC_A[n].store(container, Ordering::Relaxed);
            REC_B[n].store(index as u32, Ordering::Relaxed);
        }
        _ => REC_KIND[n].store(0, Ordering::Relaxed),
    }
    REC_N.store(n + 1, Ordering::Relaxed);
}

/// Concrete widths [W0 W1 W2] and one subsection [start 2] (start symbolic 0..=1000), all contents
/// of exactly 2 entries: the entries handed to the table are those ISO 32000-1 7.5.8.3 defines.
fn xrefstm_rec_harness<const W0: usize, const W1: usize, const W2: usize, const C: usize>() {
    assert!(C == 2 * (W0 + W1 + W2));
    let content: [u8; C] = kani::any();
    let start: i64 = kani::any();
    kani::assume(start >= 0 && start <= 1000);
    let mut d = Dictionary::new();
    d.set("Size", 2000i64);
    d.set("W", int_array(&[W0 as i64, W1 as i64, W2 as i64]));
    d.set("Index", int_array(&[start, 2]));
    REC_N.store(0, Ordering::Relaxed);
    let r = decode_xref_stream(Stream::new(d, content.to_vec()));
    assert!(r.is_ok(), "well-formed cross-reference stream rejected");
    // reference
    let esz = W0 + W1 + W2;
    let mut expected = 0usize;
    let mut j = 0usize;
    while j < 2 {
        let pos = j * esz;
        let t = if W0 == 0 { 1 } else { be(&content, pos, W0) };
        let f2 = be(&content, pos + W0, W1);
        let f3 = be(&content, pos + W0 + W1, W2);
        if t == 1 || t == 2 {
            let k = expected;
            assert!(REC_N.load(Ordering::Relaxed) > k, "an in-use or compressed entry was not recorded");
            assert!(REC_ID[k].load(Ordering::Relaxed) == (start as u32) + j as u32, "entry stored under the wrong object number");
            assert!(REC_KIND[k].load(Ordering::Relaxed) == t, "entry type 1 = in use, 2 = compressed");
            assert!(REC_A[k].load(Ordering::Relaxed) == f2, "second field (offset / stream number) decoded wrongly");
            let want3 = if t == 1 && W2 == 0 { 0 } else { f3 & 0xFFFF };
            assert!(REC_B[k].load(Ordering::Relaxed) == want3, "third field (generation / index) decoded wrongly");
            expected += 1;
        }
        j += 1;
    }
    assert!(REC_N.load(Ordering::Relaxed) == expected, "free or unknown-type entries must not be recorded as objects");
    kani::cover!(expected == 2);
    kani::cover!(expected == 0);
    std::mem::forget(r);
}
#[kani::proof]
#[kani::unwind(5)]
#[kani::stub(crate::xref::Xref::insert, rec_xref_insert)]
#[kani::stub(crate::object::Stream::decompress, stub_stream_decompress)]
#[kani::stub(std::string::String::from_utf8_lossy, crate::object::verif_kani::lossy_stub)]
fn c02_xrefstm_rec_w121() {
    xrefstm_rec_harness::<1, 2, 1, 8>();
}
#[kani::proof]
#[kani::unwind(5)]
#[kani::stub(crate::xref::Xref::insert, rec_xref_insert)]
#[kani::stub(crate::object::Stream::decompress, stub_stream_decompress)]
#[kani::stub(std::string::String::from_utf8_lossy, crate::object::verif_kani::lossy_stub)]
fn c02_xrefstm_rec_w020() {
    xrefstm_rec_harness::<0, 2, 0, 4>();
}
#[kani::proof]
#[kani::unwind(5)]
#[kani::stub(crate::xref::Xref::insert, rec_xref_insert)]
#[kani::stub(crate::object::Stream::decompress, stub_stream_decompress)]
#[kani::stub(std::string::String::from_utf8_lossy, crate::object::verif_kani::lossy_stub)]
fn c02_xrefstm_rec_w132() {
    xrefstm_rec_harness::<1, 3, 2, 12>();
}
