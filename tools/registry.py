"""Harness registry: which #[kani::proof] decides which property, at which tier, with which bound."""

DEFAULT_MODELS = ["indexmap"]

HARNESSES = []


def H(name, module, props, funcs, bound, timeout=300, mem_gb=6, **kw):
    d = dict(name=name, module=module, props=props, funcs=funcs, bound=bound, timeout=timeout, mem_gb=mem_gb)
    d.update(kw)
    HARNESSES.append(d)


Q, T = "quick", "thorough"

# ---------------------------------------------------------------- C09 (filters) -----------------
H("c09_paeth", "png.rs", {"C09": Q}, ["filters::png::paeth_predict"],
  "all 2^24 (left, above, upper-left) triples vs PNG 9.4 text", timeout=120)
for ft in ("none", "sub", "up", "avg", "paeth"):
    H(f"c09_row_{ft}_4", "png.rs", {"C09": Q}, ["filters::png::decode_row"],
      "all rows of length 0..=4 x previous rows x bpp 1..=3 vs PNG 9.2 reconstruction", timeout=300)


def select(pid, tier):
    out = []
    for h in HARNESSES:
        t = h["props"].get(pid)
        if t is None:
            continue
        if tier == "thorough" or t == Q:
            out.append(h)
    return out


def by_name(name):
    for h in HARNESSES:
        if h["name"] == name:
            return h
    raise KeyError(name)
