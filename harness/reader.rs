//! C02 / C04 harnesses for src/reader.rs (startxref discovery).
use super::*;

/// Reference: index of the LAST occurrence of `pat` in `buf` at or after `start`.
fn ref_last<const N: usize>(buf: &[u8; N], pat: &[u8], start: usize) -> Option<usize> {
    let mut best = None;
    let mut i = start;
    while i + pat.len() <= N {
        let mut k = 0;
        let mut ok = true;
        while k < pat.len() {
            if buf[i + k] != pat[k] {
                ok = false;
            }
            k += 1;
        }
        if ok {
            best = Some(i);
        }
        i += 1;
    }
    best
}

/// search_substring returns the last occurrence at or after start_pos (the last %%EOF / startxref
/// decides which revision is loaded), over an alphabet that forces overlaps and partial matches.
fn search_harness<const N: usize>(pat: &'static [u8]) {
    let sel: [u8; N] = kani::any();
    let mut buf = [0u8; N];
    let mut i = 0;
    while i < N {
        // alphabet: the pattern's own characters plus one foreign byte
        buf[i] = match sel[i] % 3 {
            0 => pat[0],
            1 => pat[pat.len() - 1],
            _ => b'x',
        };
        i += 1;
    }
    let start: usize = kani::any();
    kani::assume(start <= N);
    let got = Reader::search_substring(&buf, pat, start);
    let exp = ref_last::<N>(&buf, pat, start);
    assert!(got == exp, "search_substring is not the last occurrence");
    kani::cover!(exp.is_some() && exp != Some(start));
    kani::cover!(exp.is_none());
}
#[kani::proof]
#[kani::unwind(5)]
fn c02_search_substring_ab_3() {
    search_harness::<3>(b"ab");
}
#[kani::proof]
#[kani::unwind(6)]
fn c02_search_substring_aa_4() {
    search_harness::<4>(b"aa");
}
