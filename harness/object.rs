//! Harnesses for src/object.rs: ASCII85, predictor plumbing, filter chains, Length bookkeeping,
//! Dictionary semantics.  Child module of `crate::object` (sees private items).
use super::*;
use crate::verif_common::*;
use std::sync::atomic::{AtomicUsize, Ordering};
#[allow(unused_imports)]
use verif_support;

// ------------------------------------------------------------------------------------------------
// Reference Adobe ASCII85 decoder, written from ISO 32000-1 7.4.3 (arrays and integers only).
// ------------------------------------------------------------------------------------------------
pub(crate) enum A85 {
    /// the input is in the language 7.4.3 defines; these are the decoded bytes
    Ok,
    /// outside the defined language (value >= 2^32, single-char final group, 'z' inside a group,
    /// foreign character): the standard defines no output; only "no panic" is required (C04)
    Undefined,
}

fn is_pdf_a85_space(c: u8) -> bool {
    // white-space characters lopdf and the standard agree on (NUL is white space in ISO 32000 as
    // well, but no encoder emits it; it is treated as outside the examined language)
    c == b' ' || c == b'\t' || c == b'\n' || c == b'\r' || c == 0x0C
}

pub(crate) fn ref_a85<const N: usize, const M: usize>(inp: &[u8], out: &mut Buf<M>) -> A85 {
    let mut end = inp.len();
    // EOD marker "~>" (7.4.3: "The ASCII base-85 encoding ... followed by ~>")
    if end >= 2 && inp[end - 2] == b'~' && inp[end - 1] == b'>' {
        end -= 2;
    }
    let mut acc: u64 = 0;
    let mut cnt: usize = 0;
    let mut i = 0;
    while i < end {
        let c = inp[i];
        i += 1;
        if is_pdf_a85_space(c) {
            continue;
        }
        if c == b'z' {
            if cnt != 0 {
                return A85::Undefined;
            }
            out.push(0);
            out.push(0);
            out.push(0);
            out.push(0);
            continue;
        }
        if c < b'!' || c > b'u' {
            return A85::Undefined;
        }
        acc = acc * 85 + (c - b'!') as u64;
        cnt += 1;
        if cnt == 5 {
            if acc > 0xFFFF_FFFF {
                return A85::Undefined;
            }
            out.push((acc >> 24) as u8);
            out.push((acc >> 16) as u8);
            out.push((acc >> 8) as u8);
            out.push(acc as u8);
            acc = 0;
            cnt = 0;
        }
    }
    if cnt == 1 {
        return A85::Undefined;
    }
    if cnt > 1 {
        let mut k = cnt;
        while k < 5 {
            acc = acc * 85 + 84;
            k += 1;
        }
        if acc > 0xFFFF_FFFF {
            return A85::Undefined;
        }
        let bytes = [(acc >> 24) as u8, (acc >> 16) as u8, (acc >> 8) as u8, acc as u8];
        let mut k = 0;
        while k < cnt - 1 {
            out.push(bytes[k]);
            k += 1;
        }
    }
    A85::Ok
}

/// Compare lopdf's result with the reference (length first, then bytes at concrete indices).
fn a85_compare<const M: usize>(r: &Result<Vec<u8>>, defined: bool, exp: &Buf<M>) {
    if defined {
        match r {
            Ok(v) => {
                assert!(v.len() == exp.n, "decode_ascii85 output length differs from ISO 32000 7.4.3");
                let mut k = 0;
                while k < M {
                    if k < exp.n {
                        assert!(v[k] == exp.b[k], "decode_ascii85 differs from ISO 32000 7.4.3");
                    }
                    k += 1;
                }
            }
            Err(_) => panic!("decode_ascii85 rejects input that ISO 32000 7.4.3 defines"),
        }
    }
}

/// N symbolic bytes followed by the (concrete) EOD marker "~>": T = N + 2, M = 4 * N.
fn a85_eod_harness<const N: usize, const T: usize, const M: usize>() {
    let body: [u8; N] = kani::any();
    let mut inp = [0u8; T];
    let mut i = 0;
    while i < N {
        inp[i] = body[i];
        i += 1;
    }
    inp[N] = b'~';
    inp[N + 1] = b'>';
    let r = Stream::decode_ascii85(&inp[..]);
    let mut exp = Buf::<M>::new();
    let defined = matches!(ref_a85::<N, M>(&inp[..], &mut exp), A85::Ok);
    a85_compare::<M>(&r, defined, &exp);
    kani::cover!(defined && r.is_ok() && exp.n > 0);
    std::mem::forget(r);
}

/// N symbolic bytes, no EOD marker (lopdf tolerates a missing marker; the data is still 7.4.3 data).
fn a85_noeod_harness<const N: usize, const M: usize>() {
    let inp: [u8; N] = kani::any();
    kani::assume(!(N >= 2 && inp[N - 2] == b'~' && inp[N - 1] == b'>'));
    let r = Stream::decode_ascii85(&inp[..]);
    let mut exp = Buf::<M>::new();
    let defined = matches!(ref_a85::<N, M>(&inp[..], &mut exp), A85::Ok);
    a85_compare::<M>(&r, defined, &exp);
    kani::cover!(defined && r.is_ok() && exp.n > 0);
    std::mem::forget(r);
}

macro_rules! a85_eod_h {
    ($name:ident, $n:expr, $unw:expr) => {
        #[kani::proof]
        #[kani::unwind($unw)]
        fn $name() {
            a85_eod_harness::<$n, { $n + 2 }, { 4 * $n }>();
        }
    };
}
// unwind: max(input loop N+3, output compare 4N+1, padding loop 5)
a85_eod_h!(c09_ascii85_eod_1, 1, 6);
a85_eod_h!(c09_ascii85_eod_2, 2, 9);
a85_eod_h!(c09_ascii85_eod_3, 3, 13);
a85_eod_h!(c09_ascii85_eod_4, 4, 17);
a85_eod_h!(c09_ascii85_eod_5, 5, 21);
a85_eod_h!(c09_ascii85_eod_6, 6, 25);
a85_eod_h!(c09_ascii85_eod_7, 7, 29);

#[kani::proof]
#[kani::unwind(9)]
fn c09_ascii85_noeod_2() {
    a85_noeod_harness::<2, 8>();
}
#[kani::proof]
#[kani::unwind(13)]
fn c09_ascii85_noeod_3() {
    a85_noeod_harness::<3, 12>();
}

/// C04: arbitrary bytes, no assertion other than absence of panic (all Rust panics are checked by Kani).
macro_rules! a85_nopanic_h {
    ($name:ident, $n:expr, $unw:expr) => {
        #[kani::proof]
        #[kani::unwind($unw)]
        fn $name() {
            let inp: [u8; $n] = kani::any();
            let r = Stream::decode_ascii85(&inp[..]);
            kani::cover!(r.is_ok());
            kani::cover!(r.is_err());
            std::mem::forget(r);
        }
    };
}
a85_nopanic_h!(c04_ascii85_nopanic_4, 4, 6);
a85_nopanic_h!(c04_ascii85_nopanic_5, 5, 7);
a85_nopanic_h!(c04_ascii85_nopanic_6, 6, 8);

// ------------------------------------------------------------------------------------------------
// Predictor parameter plumbing: decompress_predictor -> png::decode_frame(bpp, columns)
// ------------------------------------------------------------------------------------------------
static REC_CALLS: AtomicUsize = AtomicUsize::new(0);
static REC_BPP: AtomicUsize = AtomicUsize::new(0);
static REC_COLS: AtomicUsize = AtomicUsize::new(0);
static REC_LEN: AtomicUsize = AtomicUsize::new(0);

fn rec_decode_frame(content: &[u8], bytes_per_pixel: usize, pixels_per_row: usize) -> std::io::Result<Vec<u8>> {
    REC_CALLS.fetch_add(1, Ordering::Relaxed);
    REC_BPP.store(bytes_per_pixel, Ordering::Relaxed);
    REC_COLS.store(pixels_per_row, Ordering::Relaxed);
    REC_LEN.store(content.len(), Ordering::Relaxed);
    Ok(Vec::new())
}

/// Error-text stub: `Dictionary::get` eagerly builds `String::from_utf8_lossy(key)` for its error
/// value on every call; the text is irrelevant to every property examined here.
pub(crate) fn lossy_stub(_v: &[u8]) -> std::borrow::Cow<'_, str> {
    std::borrow::Cow::Borrowed("")
}

fn int_or_null(present: bool, v: i64) -> Object {
    if present {
        Object::Integer(v)
    } else {
        Object::Null
    }
}

/// Legal parameter space (ISO 32000 Table 8 with BitsPerComponent restricted to 8 and 16 as the
/// property states): predictor 10..=15 reaches the PNG un-filter with bytes-per-pixel =
/// Colors*Bits/8 and row length Columns; predictor 1 / absent leaves the data alone.
/// (Dictionary shape is concrete; "absent" is modelled by a null value, which lopdf's accessor
/// chain `get(..).and_then(as_i64)` treats exactly like a missing key.)
#[kani::proof]
#[kani::unwind(20)]
#[kani::stub(crate::filters::png::decode_frame, rec_decode_frame)]
#[kani::stub(std::string::String::from_utf8_lossy, lossy_stub)]
fn c09_predictor_params() {
    let pred: i64 = kani::any();
    let cols: i64 = kani::any();
    let colors: i64 = kani::any();
    let bits16: bool = kani::any();
    kani::assume(pred >= 0 && pred <= 20);
    kani::assume(cols >= 1 && cols <= 1_000_000);
    kani::assume(colors >= 1 && colors <= 32);
    let has_cols: bool = kani::any();
    let has_colors: bool = kani::any();
    let has_bits: bool = kani::any();
    let mut d = Dictionary::new();
    d.set("Predictor", pred);
    d.set("Columns", int_or_null(has_cols, cols));
    d.set("Colors", int_or_null(has_colors, colors));
    d.set("BitsPerComponent", int_or_null(has_bits, if bits16 { 16 } else { 8 }));
    let data = vec![7u8, 8, 9];
    let r = Stream::decompress_predictor(data, Some(&d));
    let calls = REC_CALLS.load(Ordering::Relaxed);
    if pred >= 10 && pred <= 15 {
        assert!(calls == 1, "PNG predictor 10..15 must reach the PNG un-filter exactly once");
        let e_cols = if has_cols { cols as usize } else { 1 };
        let e_colors = if has_colors { colors as usize } else { 1 };
        let e_bits = if has_bits && bits16 { 16 } else { 8 };
        assert!(REC_COLS.load(Ordering::Relaxed) == e_cols, "Columns not passed to the un-filter (default 1)");
        assert!(REC_BPP.load(Ordering::Relaxed) == e_colors * e_bits / 8, "bytes per pixel != Colors*BitsPerComponent/8");
        assert!(REC_LEN.load(Ordering::Relaxed) == 3);
    } else if pred == 1 || pred == 0 {
        assert!(calls == 0);
        match &r {
            Ok(v) => assert!(v.len() == 3 && v[0] == 7 && v[1] == 8 && v[2] == 9),
            Err(_) => panic!("predictor 1 must be the identity"),
        }
    }
    kani::cover!(pred == 12 && has_cols && has_colors && has_bits && bits16);
    std::mem::forget(r);
    std::mem::forget(d);
}

/// No parameters at all: identity.
#[kani::proof]
#[kani::unwind(8)]
fn c09_predictor_none() {
    let data: [u8; 3] = kani::any();
    let r = Stream::decompress_predictor(data.to_vec(), None);
    match &r {
        Ok(v) => assert!(same_bytes(v, &data)),
        Err(_) => panic!("no DecodeParms must be the identity"),
    }
    kani::cover!(true);
    std::mem::forget(r);
}

/// C04: attacker-chosen Columns / Colors / BitsPerComponent must not panic (overflow checks on).
#[kani::proof]
#[kani::unwind(20)]
#[kani::stub(crate::filters::png::decode_frame, rec_decode_frame)]
#[kani::stub(std::string::String::from_utf8_lossy, lossy_stub)]
fn c04_predictor_params_any() {
    let cols: i64 = kani::any();
    let colors: i64 = kani::any();
    let bits: i64 = kani::any();
    let mut d = Dictionary::new();
    d.set("Predictor", 12i64);
    d.set("Columns", cols);
    d.set("Colors", colors);
    d.set("BitsPerComponent", bits);
    let r = Stream::decompress_predictor(vec![0u8, 1, 2], Some(&d));
    kani::cover!(r.is_ok());
    std::mem::forget(r);
    std::mem::forget(d);
}

// ------------------------------------------------------------------------------------------------
// End-to-end small geometry: decompress_predictor + real png::decode_frame vs PNG reference
// ------------------------------------------------------------------------------------------------
fn ref_paeth(a: u8, b: u8, c: u8) -> u8 {
    let (ia, ib, ic) = (a as i32, b as i32, c as i32);
    let p = ia + ib - ic;
    let pa = (p - ia).abs();
    let pb = (p - ib).abs();
    let pc = (p - ic).abs();
    if pa <= pb && pa <= pc {
        a
    } else if pb <= pc {
        b
    } else {
        c
    }
}

/// Two rows, geometry concrete (ROW bytes per row, BPP bytes per pixel), filter bytes and data symbolic.
fn predictor_frame_harness<const ROW: usize, const TOTAL: usize>(cols: i64, colors: i64, bits: i64) {
    let bpp = (colors * bits / 8) as usize;
    assert!(bpp * cols as usize == ROW && TOTAL == 2 * (ROW + 1));
    let data: [u8; TOTAL] = kani::any();
    let pred: i64 = kani::any();
    kani::assume(pred >= 10 && pred <= 15);
    let mut d = Dictionary::new();
    d.set("Predictor", pred);
    d.set("Columns", cols);
    d.set("Colors", colors);
    d.set("BitsPerComponent", bits);
    let r = Stream::decompress_predictor(data.to_vec(), Some(&d));
    let f0 = data[0];
    let f1 = data[ROW + 1];
    if f0 <= 4 && f1 <= 4 {
        // reference reconstruction, PNG 9.2
        let mut prev = [0u8; ROW];
        let mut out = [0u8; TOTAL];
        let mut n = 0;
        let mut row = 0;
        while row < 2 {
            let ft = data[row * (ROW + 1)];
            let mut cur = [0u8; ROW];
            let mut i = 0;
            while i < ROW {
                let x = data[row * (ROW + 1) + 1 + i];
                let a = if i >= bpp { cur[i - bpp] } else { 0 };
                let b = prev[i];
                let c = if i >= bpp { prev[i - bpp] } else { 0 };
                cur[i] = match ft {
                    0 => x,
                    1 => x.wrapping_add(a),
                    2 => x.wrapping_add(b),
                    3 => x.wrapping_add(((a as u16 + b as u16) / 2) as u8),
                    _ => x.wrapping_add(ref_paeth(a, b, c)),
                };
                out[n] = cur[i];
                n += 1;
                i += 1;
            }
            prev = cur;
            row += 1;
        }
        match &r {
            Ok(v) => assert!(same_bytes(v, &out[..n]), "predictor output differs from PNG 9.2 reconstruction"),
            Err(_) => panic!("well-formed predictor data rejected"),
        }
    } else {
        assert!(r.is_err(), "invalid PNG filter type byte must be rejected");
    }
    kani::cover!(f0 == 4 && f1 == 3);
    std::mem::forget(r);
    std::mem::forget(d);
}

#[kani::proof]
#[kani::unwind(8)]
#[kani::stub(std::string::String::from_utf8_lossy, lossy_stub)]
fn c09_predictor_frame_c2_k1_b8() {
    predictor_frame_harness::<2, 6>(2, 1, 8);
}
#[kani::proof]
#[kani::unwind(8)]
#[kani::stub(std::string::String::from_utf8_lossy, lossy_stub)]
fn c09_predictor_frame_c1_k1_b16() {
    predictor_frame_harness::<2, 6>(1, 1, 16);
}
#[kani::proof]
#[kani::unwind(8)]
#[kani::stub(std::string::String::from_utf8_lossy, lossy_stub)]
fn c09_predictor_frame_c1_k3_b8() {
    predictor_frame_harness::<3, 8>(1, 3, 8);
}
#[kani::proof]
#[kani::unwind(8)]
#[kani::stub(std::string::String::from_utf8_lossy, lossy_stub)]
fn c09_predictor_frame_c2_k1_b16() {
    predictor_frame_harness::<4, 10>(2, 1, 16);
}

// ------------------------------------------------------------------------------------------------
// Length bookkeeping and "compress never makes the stream longer" (concrete shapes, symbolic bytes)
// ------------------------------------------------------------------------------------------------
fn length_entry(s: &Stream) -> i64 {
    match s.dict.get(b"Length") {
        Ok(Object::Integer(v)) => *v,
        _ => -1,
    }
}

fn filtered_base() -> Dictionary {
    let mut base = Dictionary::new();
    base.set("Filter", Object::Name(b"FlateDecode".to_vec()));
    base.set("DecodeParms", Object::Null);
    base
}

#[kani::proof]
#[kani::unwind(6)]
#[kani::stub(std::string::String::from_utf8_lossy, lossy_stub)]
fn c09_length_set_content() {
    let init: [u8; 3] = kani::any();
    let mut s = Stream::new(filtered_base(), init.to_vec());
    assert!(length_entry(&s) == 3, "Stream::new must set Length");
    let newc: [u8; 2] = kani::any();
    s.set_content(newc.to_vec());
    assert!(s.dict.has(b"Filter"), "set_content must keep the filter");
    assert!(length_entry(&s) == 2 && s.content.len() == 2 && s.content[0] == newc[0] && s.content[1] == newc[1], "Length must equal content length");
    kani::cover!(true);
    std::mem::forget(s);
}

#[kani::proof]
#[kani::unwind(6)]
#[kani::stub(std::string::String::from_utf8_lossy, lossy_stub)]
fn c09_length_set_plain_content() {
    let init: [u8; 3] = kani::any();
    let mut s = Stream::new(filtered_base(), init.to_vec());
    let newc: [u8; 2] = kani::any();
    s.set_plain_content(newc.to_vec());
    assert!(!s.dict.has(b"Filter") && !s.dict.has(b"DecodeParms"), "plain content must drop Filter/DecodeParms");
    assert!(length_entry(&s) == 2 && s.content.len() == 2 && s.content[0] == newc[0] && s.content[1] == newc[1], "Length must equal content length");
    kani::cover!(true);
    std::mem::forget(s);
}

#[kani::proof]
#[kani::unwind(6)]
#[kani::stub(std::string::String::from_utf8_lossy, lossy_stub)]
#[kani::stub(crate::filters::png::decode_frame, rec_decode_frame)]
fn c09_length_decompress() {
    let init: [u8; 3] = kani::any();
    let mut s = Stream::new(filtered_base(), init.to_vec());
    // tagged stub inflate: bytes XOR 0x55, no predictor (DecodeParms is Null)
    let r = s.decompress();
    assert!(r.is_ok());
    assert!(!s.dict.has(b"Filter") && !s.dict.has(b"DecodeParms"), "decompress must remove Filter and DecodeParms");
    assert!(s.content.len() == 3 && s.content[0] == init[0] ^ 0x55 && s.content[2] == init[2] ^ 0x55);
    assert!(length_entry(&s) == 3, "Length must equal content length");
    kani::cover!(true);
    std::mem::forget(r);
    std::mem::forget(s);
}

/// compress(): with an encoder whose output length is arbitrary (0..=len+2), the stream never gets
/// longer, Length stays consistent and Filter is set iff the content was replaced.
#[kani::proof]
#[kani::unwind(30)]
#[kani::stub(std::string::String::from_utf8_lossy, lossy_stub)]
fn c09_compress_never_longer() {
    const L: usize = 22;
    let fill: u8 = kani::any();
    let content = vec![fill; L];
    let mut s = Stream::new(Dictionary::new(), content);
    let r = s.compress();
    assert!(r.is_ok());
    assert!(s.content.len() <= L, "compress made the stream longer");
    assert!(length_entry(&s) == s.content.len() as i64, "Length != content length after compress");
    if s.dict.has(b"Filter") {
        assert!(s.content.len() < L, "Filter set but content not replaced by something shorter");
        assert!(s.dict.get(b"Filter").and_then(Object::as_name).ok() == Some(b"FlateDecode".as_slice()));
    } else {
        assert!(s.content.len() == L && s.content[L - 1] == fill, "content changed without Filter");
    }
    kani::cover!(s.dict.has(b"Filter"));
    kani::cover!(!s.dict.has(b"Filter"));
    std::mem::forget(r);
    std::mem::forget(s);
}

/// An already filtered stream is left alone by compress().
#[kani::proof]
#[kani::unwind(30)]
#[kani::stub(std::string::String::from_utf8_lossy, lossy_stub)]
fn c09_compress_prefiltered() {
    const L: usize = 22;
    let fill: u8 = kani::any();
    let mut base = Dictionary::new();
    base.set("Filter", Object::Name(b"ASCII85Decode".to_vec()));
    let mut s = Stream::new(base, vec![fill; L]);
    let r = s.compress();
    assert!(r.is_ok());
    assert!(s.content.len() == L && s.content[0] == fill && s.content[L - 1] == fill, "compress must not touch an already filtered stream");
    assert!(s.dict.get(b"Filter").and_then(Object::as_name).ok() == Some(b"ASCII85Decode".as_slice()));
    assert!(length_entry(&s) == L as i64);
    kani::cover!(true);
    std::mem::forget(r);
    std::mem::forget(s);
}

// ------------------------------------------------------------------------------------------------
// Filter-chain plumbing (codecs are tagged transparent stubs: Flate = XOR 0x55,
// LZW = XOR 0xA5 (EarlyChange 1, default) / XOR 0xAA (EarlyChange 0)).  Chain SHAPES are concrete
// (one harness per shape); content bytes, EarlyChange values and predictor rows are symbolic.
// ------------------------------------------------------------------------------------------------
const FL: u8 = 0;
const LZ: u8 = 1;
fn filter_name(k: u8) -> Object {
    Object::Name(match k {
        FL => b"FlateDecode".to_vec(),
        LZ => b"LZWDecode".to_vec(),
        _ => b"ASCII85Decode".to_vec(),
    })
}
fn tag(k: u8, early: bool) -> u8 {
    if k == FL {
        0x55
    } else if early {
        0xA5
    } else {
        0xAA
    }
}
/// PNG Up-predictor (Predictor 12, Columns 1): rows are (filter byte, 1 data byte); reference for two rows.
fn ref_up2(d: [u8; 4]) -> Option<[u8; 2]> {
    if d[0] > 4 || d[2] > 4 {
        return None;
    }
    let r0 = d[1]; // previous row is zero: every filter type leaves the first row's byte unchanged (Avg: + 0/2, Paeth: + 0)
    let r1 = match d[2] {
        0 | 1 => d[3],
        2 => d[3].wrapping_add(r0),
        3 => d[3].wrapping_add(r0 / 2),
        _ => d[3].wrapping_add(r0),
    };
    Some([r0, r1])
}
fn parms(early: i64, up_pred: bool) -> Object {
    let mut d = Dictionary::new();
    d.set("EarlyChange", early);
    if up_pred {
        d.set("Predictor", 12i64);
        d.set("Columns", 1i64);
    }
    Object::Dictionary(d)
}

/// One filter (Name or one-element array) + DecodeParms dictionary with EarlyChange in {0,1} and
/// Predictor 12: output = un-predict(tagged decode(content)).
fn chain_single<const ARRAY: bool>(k: u8) {
    let content: [u8; 4] = kani::any();
    let early: bool = kani::any();
    let mut d = Dictionary::new();
    if ARRAY {
        d.set("Filter", Object::Array(vec![filter_name(k)]));
    } else {
        d.set("Filter", filter_name(k));
    }
    d.set("DecodeParms", parms(if early { 1 } else { 0 }, true));
    let s = Stream::new(d, content.to_vec());
    let r = s.decompressed_content();
    let t = tag(k, early);
    let dec = [content[0] ^ t, content[1] ^ t, content[2] ^ t, content[3] ^ t];
    match ref_up2(dec) {
        Some(exp) => match &r {
            Ok(v) => assert!(v.len() == 2 && v[0] == exp[0] && v[1] == exp[1], "single-filter decode: wrong EarlyChange/predictor plumbing"),
            Err(_) => panic!("single-filter decode failed on defined input"),
        },
        None => assert!(r.is_err(), "invalid PNG filter byte accepted"),
    }
    kani::cover!(r.is_ok() && !early);
    std::mem::forget(r);
    std::mem::forget(s);
}
#[kani::proof]
#[kani::unwind(6)]
#[kani::stub(std::string::String::from_utf8_lossy, lossy_stub)]
fn c09_chain_flate_name_dict() {
    chain_single::<false>(FL);
}
#[kani::proof]
#[kani::unwind(6)]
#[kani::stub(std::string::String::from_utf8_lossy, lossy_stub)]
fn c09_chain_lzw_array_dict() {
    chain_single::<true>(LZ);
}

/// DecodeParms given as an ARRAY parallel to the filters (ISO 32000-1 7.3.8.2 Table 5): one filter.
#[kani::proof]
#[kani::unwind(6)]
#[kani::stub(std::string::String::from_utf8_lossy, lossy_stub)]
fn c09_chain_parms_array_1() {
    let content: [u8; 4] = kani::any();
    let mut d = Dictionary::new();
    d.set("Filter", Object::Array(vec![filter_name(FL)]));
    d.set("DecodeParms", Object::Array(vec![parms(1, true)]));
    let s = Stream::new(d, content.to_vec());
    let r = s.decompressed_content();
    let dec = [content[0] ^ 0x55, content[1] ^ 0x55, content[2] ^ 0x55, content[3] ^ 0x55];
    match ref_up2(dec) {
        Some(exp) => match &r {
            Ok(v) => assert!(v.len() == 2 && v[0] == exp[0] && v[1] == exp[1], "DecodeParms array form: stage parameters not applied to their filter"),
            Err(_) => panic!("DecodeParms array form: decode failed on defined input"),
        },
        None => assert!(r.is_err(), "invalid PNG filter byte accepted"),
    }
    kani::cover!(r.is_ok());
    std::mem::forget(r);
    std::mem::forget(s);
}

/// Two filters [LZW Flate] with DecodeParms [<<EarlyChange e>> null]: only the first stage gets
/// parameters; no predictor anywhere.
#[kani::proof]
#[kani::unwind(6)]
#[kani::stub(std::string::String::from_utf8_lossy, lossy_stub)]
#[kani::stub(crate::filters::png::decode_frame, rec_decode_frame)]
fn c09_chain_parms_array_2() {
    let content: [u8; 3] = kani::any();
    let early: bool = kani::any();
    let mut d = Dictionary::new();
    d.set("Filter", Object::Array(vec![filter_name(LZ), filter_name(FL)]));
    d.set("DecodeParms", Object::Array(vec![parms(if early { 1 } else { 0 }, false), Object::Null]));
    let s = Stream::new(d, content.to_vec());
    let r = s.decompressed_content();
    let t = tag(LZ, early) ^ 0x55;
    match &r {
        Ok(v) => assert!(v.len() == 3 && v[0] == content[0] ^ t && v[2] == content[2] ^ t, "DecodeParms array form: EarlyChange of stage 1 not applied / applied to the wrong stage"),
        Err(_) => panic!("two-stage decode failed"),
    }
    kani::cover!(!early);
    std::mem::forget(r);
    std::mem::forget(s);
}

/// Order of filters: [ASCII85 Flate] on "<5 symbolic chars>~>" = inflate(ascii85(content)).
#[kani::proof]
#[kani::unwind(24)]
#[kani::stub(std::string::String::from_utf8_lossy, lossy_stub)]
fn c09_chain_order_a85_flate() {
    let body: [u8; 5] = kani::any();
    let mut i = 0;
    while i < 5 {
        kani::assume(body[i] >= b'!' && body[i] <= b'u');
        i += 1;
    }
    let content = [body[0], body[1], body[2], body[3], body[4], b'~', b'>'];
    let mut d = Dictionary::new();
    d.set("Filter", Object::Array(vec![filter_name(2), filter_name(FL)]));
    let s = Stream::new(d, content.to_vec());
    let r = s.decompressed_content();
    let mut exp = Buf::<20>::new();
    if matches!(ref_a85::<7, 20>(&content, &mut exp), A85::Ok) {
        match &r {
            Ok(v) => assert!(v.len() == 4 && v[0] == exp.b[0] ^ 0x55 && v[1] == exp.b[1] ^ 0x55 && v[2] == exp.b[2] ^ 0x55 && v[3] == exp.b[3] ^ 0x55, "filters not applied in array order"),
            Err(_) => panic!("chain failed on defined input"),
        }
    }
    kani::cover!(r.is_ok());
    std::mem::forget(r);
    std::mem::forget(s);
}

/// Order of filters: [Flate LZW Flate] (three stages, no parameters): all tags applied.
#[kani::proof]
#[kani::unwind(6)]
#[kani::stub(std::string::String::from_utf8_lossy, lossy_stub)]
#[kani::stub(crate::filters::png::decode_frame, rec_decode_frame)]
fn c09_chain_order_3() {
    let content: [u8; 3] = kani::any();
    let mut d = Dictionary::new();
    d.set("Filter", Object::Array(vec![filter_name(FL), filter_name(LZ), filter_name(FL)]));
    let s = Stream::new(d, content.to_vec());
    let r = s.decompressed_content();
    match &r {
        Ok(v) => assert!(v.len() == 3 && v[0] == content[0] ^ 0xA5 && v[1] == content[1] ^ 0xA5 && v[2] == content[2] ^ 0xA5, "three-stage chain: some stage skipped or repeated"),
        Err(_) => panic!("three-stage decode failed"),
    }
    kani::cover!(true);
    std::mem::forget(r);
    std::mem::forget(s);
}

/// Unknown filter name in the chain: an error, not a panic and not silently skipped.
#[kani::proof]
#[kani::unwind(6)]
#[kani::stub(std::string::String::from_utf8_lossy, lossy_stub)]
#[kani::stub(crate::filters::png::decode_frame, rec_decode_frame)]
fn c09_chain_unknown_filter() {
    let content: [u8; 2] = kani::any();
    let mut d = Dictionary::new();
    d.set("Filter", Object::Array(vec![filter_name(FL), Object::Name(b"DCTDecode".to_vec())]));
    let s = Stream::new(d, content.to_vec());
    let r = s.decompressed_content();
    assert!(r.is_err(), "unsupported filter silently ignored");
    kani::cover!(true);
    std::mem::forget(r);
    std::mem::forget(s);
}

// ---- Stream::decompress bookkeeping with the decoding itself stubbed out --------------------------
fn stub_decompressed_content(_s: &Stream) -> Result<Vec<u8>> {
    Ok(vec![0xAA, 0xBB])
}
/// decompress(): after a successful decode the stream holds the decoded bytes, Filter AND
/// DecodeParms are gone (stale predictor parameters would be applied by a later compress/decode
/// cycle) and Length equals the new content length.  `decompressed_content` is replaced by a stub
/// returning two fixed bytes: this harness decides decompress()'s own bookkeeping only.
#[kani::proof]
#[kani::unwind(3)]
#[kani::stub(Stream::decompressed_content, stub_decompressed_content)]
#[kani::stub(std::string::String::from_utf8_lossy, lossy_stub)]
fn c09_decompress_bookkeeping() {
    let init: [u8; 2] = kani::any();
    let mut base = Dictionary::new();
    base.set("Filter", Object::Name(b"FlateDecode".to_vec()));
    base.set("DecodeParms", Object::Integer(12));
    let mut s = Stream::new(base, init.to_vec());
    let r = s.decompress();
    assert!(r.is_ok());
    assert!(!s.dict.has(b"Filter"), "decompress must remove Filter");
    assert!(!s.dict.has(b"DecodeParms"), "decompress must remove DecodeParms (stale predictor parameters)");
    assert!(s.content.len() == 2, "content must be the decoded bytes");
    assert!(length_entry(&s) == 2, "Length must equal the decoded content length");
    kani::cover!(true);
    std::mem::forget(r);
    std::mem::forget(s);
}

// ---- LZW / Flate stage entry points called directly (no Filter dictionary involved) ----------------
/// decompress_lzw: /EarlyChange is an INTEGER (ISO 32000-1 Table 8: 0 or 1, default 1) and selects the
/// decoder variant; the tagged weezl stub makes the chosen variant observable
/// (0xA5 = early change, 0xAA = late).  One harness per concrete dictionary shape.
fn lzw_early_harness(value: Option<i64>) {
    let input: [u8; 3] = kani::any();
    let mut d = Dictionary::new();
    d.set("K", 1i64);
    if let Some(e) = value {
        d.set("EarlyChange", e);
    }
    let r = Stream::decompress_lzw(&input, Some(&d));
    let early = match value {
        Some(e) => e != 0,
        None => true,
    };
    let t = if early { 0xA5 } else { 0xAA };
    match &r {
        Ok(v) => assert!(v.len() == 3 && v[0] == input[0] ^ t && v[1] == input[1] ^ t && v[2] == input[2] ^ t, "EarlyChange parameter not honoured (integer 0 = late change, 1 or absent = early change)"),
        Err(_) => panic!("LZW stage failed"),
    }
    kani::cover!(true);
    std::mem::forget(r);
    std::mem::forget(d);
}
#[kani::proof]
#[kani::unwind(5)]
#[kani::stub(std::string::String::from_utf8_lossy, lossy_stub)]
#[kani::stub(crate::filters::png::decode_frame, rec_decode_frame)]
fn c09_lzw_early_change_0() {
    lzw_early_harness(Some(0));
}
#[kani::proof]
#[kani::unwind(5)]
#[kani::stub(std::string::String::from_utf8_lossy, lossy_stub)]
#[kani::stub(crate::filters::png::decode_frame, rec_decode_frame)]
fn c09_lzw_early_change_1() {
    lzw_early_harness(Some(1));
}
#[kani::proof]
#[kani::unwind(5)]
#[kani::stub(std::string::String::from_utf8_lossy, lossy_stub)]
#[kani::stub(crate::filters::png::decode_frame, rec_decode_frame)]
fn c09_lzw_early_change_absent() {
    lzw_early_harness(None);
}

/// decompress_zlib / decompress_lzw without parameters: output of the codec is passed through unchanged.
#[kani::proof]
#[kani::unwind(6)]
fn c09_stage_no_params() {
    let input: [u8; 3] = kani::any();
    let z = Stream::decompress_zlib(&input, None);
    let l = Stream::decompress_lzw(&input, None);
    assert!(matches!(&z, Ok(v) if v.len() == 3 && v[0] == input[0] ^ 0x55 && v[2] == input[2] ^ 0x55), "Flate stage without parameters must return the inflated bytes");
    assert!(matches!(&l, Ok(v) if v.len() == 3 && v[0] == input[0] ^ 0xA5 && v[2] == input[2] ^ 0xA5), "LZW stage without parameters must use early change and return the decoded bytes");
    kani::cover!(true);
    std::mem::forget((z, l));
}
