//! C05 / C06 harnesses for src/encryption/rc4.rs.
use super::*;

/// Reference RC4 (Schneier, Applied Cryptography 17.1 / ISO 32000 refers to "RC4"), arrays only.
fn ref_rc4<const N: usize>(key: &[u8], data: &[u8; N]) -> [u8; N] {
    let mut s = [0u8; 256];
    let mut i = 0usize;
    while i < 256 {
        s[i] = i as u8;
        i += 1;
    }
    let mut j: usize = 0;
    let mut i = 0usize;
    while i < 256 {
        j = (j + s[i] as usize + key[i % key.len()] as usize) & 0xFF;
        let t = s[i];
        s[i] = s[j];
        s[j] = t;
        i += 1;
    }
    let mut out = [0u8; N];
    let (mut a, mut b) = (0usize, 0usize);
    let mut k = 0;
    while k < N {
        a = (a + 1) & 0xFF;
        b = (b + s[a] as usize) & 0xFF;
        let t = s[a];
        s[a] = s[b];
        s[b] = t;
        out[k] = data[k] ^ s[(s[a] as usize + s[b] as usize) & 0xFF];
        k += 1;
    }
    out
}

/// Published test vector (key "Key", keystream EB9F7781B734CA72A719...) generalised: for the
/// concrete key every 8-byte plaintext encrypts to plaintext XOR keystream, and decrypt inverts it.
#[kani::proof]
#[kani::unwind(258)]
fn c06_rc4_key_vector() {
    const KS: [u8; 8] = [0xEB, 0x9F, 0x77, 0x81, 0xB7, 0x34, 0xCA, 0x72];
    let data: [u8; 8] = kani::any();
    let rc4 = Rc4::new(b"Key");
    let enc = rc4.encrypt(&data[..]);
    assert!(enc.len() == 8);
    let mut i = 0;
    while i < 8 {
        assert!(enc[i] == data[i] ^ KS[i], "RC4 keystream differs from the published test vector");
        i += 1;
    }
    let dec = Rc4::new(b"Key").decrypt(&enc[..]);
    let mut i = 0;
    while i < 8 {
        assert!(dec[i] == data[i], "RC4 decrypt does not invert encrypt");
        i += 1;
    }
    kani::cover!(true);
    std::mem::forget((enc, dec));
}

/// 40-bit and 128-bit concrete keys (the two lengths ISO 32000 uses most): implementation equals the
/// reference on every 6-byte plaintext.
fn rc4_concrete_key_harness(key: &[u8]) {
    let data: [u8; 6] = kani::any();
    let exp = ref_rc4::<6>(key, &data);
    let enc = Rc4::new(key).encrypt(&data[..]);
    assert!(enc.len() == 6);
    let mut i = 0;
    while i < 6 {
        assert!(enc[i] == exp[i], "RC4 differs from the reference cipher");
        i += 1;
    }
    kani::cover!(true);
    std::mem::forget(enc);
}
#[kani::proof]
#[kani::unwind(258)]
fn c06_rc4_ref_key40() {
    rc4_concrete_key_harness(&[0x01, 0x23, 0x45, 0x67, 0x89]);
}
#[kani::proof]
#[kani::unwind(258)]
fn c06_rc4_ref_key128() {
    rc4_concrete_key_harness(&[0x00, 0x11, 0x22, 0x33, 0x44, 0x55, 0x66, 0x77, 0x88, 0x99, 0xAA, 0xBB, 0xCC, 0xDD, 0xEE, 0xFF]);
}

/// Symbolic key (every 1-byte / 2-byte key), 2 output bytes: differential against the reference.
#[kani::proof]
#[kani::unwind(258)]
fn c06_rc4_ref_symkey1() {
    let key: [u8; 1] = kani::any();
    let data: [u8; 2] = kani::any();
    let exp = ref_rc4::<2>(&key, &data);
    let enc = Rc4::new(&key[..]).encrypt(&data[..]);
    assert!(enc.len() == 2 && enc[0] == exp[0] && enc[1] == exp[1], "RC4 differs from the reference cipher");
    kani::cover!(true);
    std::mem::forget(enc);
}
#[kani::proof]
#[kani::unwind(258)]
fn c06_rc4_ref_symkey2() {
    let key: [u8; 2] = kani::any();
    let data: [u8; 2] = kani::any();
    let exp = ref_rc4::<2>(&key, &data);
    let enc = Rc4::new(&key[..]).encrypt(&data[..]);
    assert!(enc.len() == 2 && enc[0] == exp[0] && enc[1] == exp[1], "RC4 differs from the reference cipher");
    kani::cover!(true);
    std::mem::forget(enc);
}

/// Long stream (the keystream index wraps around after 255 bytes): key "Key", 262 bytes of which the
/// last 6 are symbolic: bytes 256..262 of the ciphertext equal the reference cipher's.
#[kani::proof]
#[kani::unwind(264)]
fn c06_rc4_long_stream() {
    let tail: [u8; 6] = kani::any();
    let mut data = [0u8; 262];
    let mut i = 0;
    while i < 6 {
        data[256 + i] = tail[i];
        i += 1;
    }
    let exp = ref_rc4::<262>(b"Key", &data);
    let enc = Rc4::new(b"Key").encrypt(&data[..]);
    assert!(enc.len() == 262);
    let mut i = 250;
    while i < 262 {
        assert!(enc[i] == exp[i], "RC4 keystream differs from the reference cipher beyond the first 255 bytes");
        i += 1;
    }
    kani::cover!(true);
    std::mem::forget(enc);
}

/// Witness helper for c06_rc4_long_stream (same single `kani::any::<[u8; 6]>()` input): trace
/// generation for the 262-byte harness exhausts memory, and a wrong keystream is wrong for every
/// plaintext, so any values serve; they are replayed natively through the real harness, which alone
/// decides whether a violation is reported.
#[kani::proof]
fn c06_rc4_long_witness() {
    let tail: [u8; 6] = kani::any();
    assert!(tail[0] != tail[0], "witness helper: always fails, only provides input values");
    kani::cover!(true);
}
