//! Support code for the Kani harnesses (compiled only under cfg(kani); lopdf itself is
//! `#![forbid(unsafe_code)]`, so everything needing `unsafe` lives here).
#![feature(allocator_api)]
use std::alloc::{Allocator, Layout};

/// One of the values `RandomState::new()` may return (HashMap behaviour must not depend on the keys).
pub fn fixed_random_state() -> std::hash::RandomState {
    unsafe { std::mem::transmute::<[u64; 2], std::hash::RandomState>([0x0706050403020100, 0x0f0e0d0c0b0a0908]) }
}

extern "C" {
    fn malloc(size: usize) -> *mut u8;
    fn calloc(n: usize, size: usize) -> *mut u8;
}

/// Allocator model ("arena of fixed-size blocks").
///
/// CBMC handles heap objects of *constant* size cheaply and objects of symbolic size (every `Vec`
/// that grows on a data-dependent path, via Kani's `realloc` = `malloc(symbolic)` + `memcpy(symbolic)`)
/// very badly: reading one byte of the result of a 2-byte ASCII85 decode needed > 20 GB.
/// The model hands out blocks of one constant size CAP for every request <= CAP, so `realloc`
/// within CAP is the identity and nothing is ever copied or freed.  Over-allocation and leaking are
/// unobservable for safe Rust (Vec/String track their own capacity).  A request above CAP fails an
/// assertion => the harness is reported inconclusive ("bound exceeded"), never silently truncated.
macro_rules! arena {
    ($alloc:ident, $zeroed:ident, $realloc:ident, $cap:expr) => {
        pub unsafe fn $alloc(layout: Layout) -> *mut u8 {
            assert!(layout.size() <= $cap, "verif allocator model: request above block size (bound exceeded)");
            malloc($cap)
        }
        pub unsafe fn $zeroed(layout: Layout) -> *mut u8 {
            assert!(layout.size() <= $cap, "verif allocator model: request above block size (bound exceeded)");
            calloc(1, $cap)
        }
        pub unsafe fn $realloc(ptr: *mut u8, _layout: Layout, new_size: usize) -> *mut u8 {
            assert!(new_size <= $cap, "verif allocator model: request above block size (bound exceeded)");
            ptr
        }
    };
}
arena!(alloc64, alloc_zeroed64, realloc64, 64);
arena!(alloc256, alloc_zeroed256, realloc256, 256);
arena!(alloc1k, alloc_zeroed1k, realloc1k, 1024);
arena!(alloc4k, alloc_zeroed4k, realloc4k, 4096);

/// Leak instead of free.
pub unsafe fn dealloc_nop(_ptr: *mut u8, _layout: Layout) {}

/// Replacement for `NonNull::without_provenance` (what `Vec::new()`, `String::new()`, empty boxed
/// slices ... use for their "dangling" pointer).  CBMC treats an integer-address pointer that is
/// later dereferenced on a symbolically-guarded path (e.g. `slice.contains()` on a possibly-empty
/// `Vec<usize>`) as able to alias every object in the program, which blew a 1-byte
/// `Writer::write_string` query up to > 20 GB.  The model returns the address of a real, leaked,
/// 64-byte aligned static object instead: any non-null, well-aligned pointer is a valid dangling
/// pointer for the zero-sized accesses Rust performs through it, so behaviour is unchanged.
#[repr(align(64))]
pub struct DanglingArena(pub [u8; 64]);
pub static DANGLING_ARENA: DanglingArena = DanglingArena([0u8; 64]);

pub fn without_provenance_model<T>(_addr: std::num::NonZero<usize>) -> std::ptr::NonNull<T> {
    unsafe { std::ptr::NonNull::new_unchecked(DANGLING_ARENA.0.as_ptr() as *mut T) }
}

/// `Vec::extend_from_slice` as an element-wise push loop (same semantics; avoids a bulk `memcpy`
/// to a symbolic offset / of symbolic length, which CBMC encodes very expensively).
pub fn vec_extend_from_slice_model<T: Clone, A: Allocator>(v: &mut Vec<T, A>, other: &[T]) {
    let mut i = 0;
    while i < other.len() {
        v.push(other[i].clone());
        i += 1;
    }
}

/// `Vec::append` as an element-wise move loop (same semantics; avoids a bulk `memcpy` of symbolic
/// length between possibly-unallocated vectors).
pub fn vec_append_model<T, A: Allocator>(v: &mut Vec<T, A>, other: &mut Vec<T, A>) {
    for x in other.drain(..) {
        v.push(x);
    }
}

/// Builds a `&str` from bytes the harness has constructed as valid UTF-8 *by construction*
/// (std's `from_utf8` validation - word-at-a-time loads, alignment arithmetic - is very expensive
/// to execute symbolically and is not under test).
pub fn str_from_valid_utf8(b: &[u8]) -> &str {
    unsafe { std::str::from_utf8_unchecked(b) }
}
