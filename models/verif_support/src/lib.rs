//! Stubs used only under cfg(kani).
pub fn fixed_random_state() -> std::hash::RandomState {
    // RandomState is two u64 keys; a fixed key is one of the values the real constructor may return.
    unsafe { std::mem::transmute::<[u64; 2], std::hash::RandomState>([0x0706050403020100, 0x0f0e0d0c0b0a0908]) }
}
