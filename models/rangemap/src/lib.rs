//! Verification model of `rangemap::RangeInclusiveMap<u32, V>` for the API subset lopdf uses
//! (`new`, `insert`, `get_key_value`, `get`, `Default`, `Debug`).
//!
//! Documented contract implemented here (rangemap 1.x docs, `RangeInclusiveMap::insert`):
//!  * "If the inserted range partially or completely overlaps any existing range in the map, then
//!    the existing range (or ranges) will be partially or completely replaced by the inserted range."
//!    -> the non-overlapped remainders of older ranges stay, keeping (a clone of) their value;
//!  * "If the inserted range either overlaps or is immediately adjacent any existing range mapping
//!    to the same value, then the ranges will be coalesced into a single contiguous range."
//! Entries are kept in a Vec sorted by start; nothing is dropped (leaked) to keep drop glue out of
//! the model checker's way.
use core::ops::RangeInclusive;
use std::mem::ManuallyDrop;

pub struct RangeInclusiveMap<K, V> {
    e: ManuallyDrop<Vec<(RangeInclusive<K>, V)>>,
}
impl<K, V> Default for RangeInclusiveMap<K, V> {
    fn default() -> Self {
        RangeInclusiveMap { e: ManuallyDrop::new(Vec::new()) }
    }
}
impl<K: core::fmt::Debug, V: core::fmt::Debug> core::fmt::Debug for RangeInclusiveMap<K, V> {
    fn fmt(&self, f: &mut core::fmt::Formatter<'_>) -> core::fmt::Result {
        f.write_str("RangeInclusiveMap{..}")
    }
}

/// The model supports the key type lopdf uses (u32 source codes).
impl<V: Clone + PartialEq> RangeInclusiveMap<u32, V> {
    pub fn new() -> Self {
        Self::default()
    }
    pub fn len(&self) -> usize {
        self.e.len()
    }
    pub fn is_empty(&self) -> bool {
        self.e.is_empty()
    }
    pub fn get_key_value(&self, key: &u32) -> Option<(&RangeInclusive<u32>, &V)> {
        let mut i = 0;
        while i < self.e.len() {
            if *self.e[i].0.start() <= *key && *key <= *self.e[i].0.end() {
                return Some((&self.e[i].0, &self.e[i].1));
            }
            i += 1;
        }
        None
    }
    pub fn get(&self, key: &u32) -> Option<&V> {
        self.get_key_value(key).map(|(_, v)| v)
    }
    pub fn contains_key(&self, key: &u32) -> bool {
        self.get_key_value(key).is_some()
    }
    pub fn insert(&mut self, range: RangeInclusive<u32>, value: V) {
        assert!(range.start() <= range.end(), "range start must not exceed end");
        let (mut lo, mut hi) = (*range.start(), *range.end());
        let n = self.e.len();
        // pass 1: widen [lo, hi] over equal-valued overlapping/adjacent neighbours (coalescing)
        let mut i = 0;
        while i < n {
            let (s, t) = (*self.e[i].0.start(), *self.e[i].0.end());
            let overlaps = s <= hi && lo <= t;
            let adjacent = (t < lo && t + 1 == lo) || (hi < s && hi + 1 == s);
            if (overlaps || adjacent) && self.e[i].1 == value {
                if s < lo {
                    lo = s;
                }
                if t > hi {
                    hi = t;
                }
            }
            i += 1;
        }
        // pass 2: rebuild the sorted list: remnants of older ranges left of the new range, the new
        // range, remnants right of it (plain pushes, no element moves)
        let mut out: Vec<(RangeInclusive<u32>, V)> = Vec::with_capacity(n + 2);
        let mut i = 0;
        while i < n {
            let (s, t) = (*self.e[i].0.start(), *self.e[i].0.end());
            if s < lo {
                let end = if t < lo { t } else { lo - 1 };
                out.push((s..=end, self.e[i].1.clone()));
            }
            i += 1;
        }
        out.push((lo..=hi, value));
        let mut i = 0;
        while i < n {
            let (s, t) = (*self.e[i].0.start(), *self.e[i].0.end());
            if t > hi {
                let start = if s > hi { s } else { hi + 1 };
                out.push((start..=t, self.e[i].1.clone()));
            }
            i += 1;
        }
        std::mem::forget(std::mem::replace(&mut *self.e, out));
    }
}
