//! C12 / C13 harnesses for src/document.rs.  Child module of `crate::document`.
use super::*;
#[allow(unused_imports)]
use verif_support;

fn fixed_random_state() -> std::hash::RandomState {
    verif_support::fixed_random_state()
}

fn put(doc: &mut Document, id: u32, o: Object) {
    std::mem::forget(doc.objects.insert((id, 0), o));
    if id > doc.max_id {
        doc.max_id = id;
    }
}

fn sym_ref(max: u32) -> Object {
    let t: u32 = kani::any();
    kani::assume(t >= 1 && t <= max);
    Object::Reference((t, 0))
}

/// dereference() on acyclic chains: object k is an integer or a reference to a HIGHER id (5 = dangling):
/// returns the first non-reference object, or ObjectNotFound for a dangling end.
#[kani::proof]
#[kani::unwind(7)]
#[kani::stub(std::hash::RandomState::new, fixed_random_state)]
fn c13_dereference_chain() {
    let mut doc = Document::new();
    let t: [u32; 4] = kani::any();
    let isref: [bool; 4] = kani::any();
    let mut id = 1u32;
    while id <= 4 {
        let k = id as usize - 1;
        kani::assume(t[k] > id && t[k] <= 5);
        let o = if isref[k] { Object::Reference((t[k], 0)) } else { Object::Integer(id as i64) };
        put(&mut doc, id, o);
        id += 1;
    }
    let start = Object::Reference((1, 0));
    let r = doc.dereference(&start);
    // reference walk
    let mut cur = 1u32;
    let mut steps = 0;
    while steps < 5 && cur <= 4 && isref[cur as usize - 1] {
        cur = t[cur as usize - 1];
        steps += 1;
    }
    match &r {
        Ok((rid, obj)) => {
            assert!(cur <= 4, "dangling chain resolved to something");
            assert!(*rid == Some((cur, 0)), "wrong final object id");
            assert!(matches!(obj, Object::Integer(v) if *v == cur as i64), "wrong final object");
        }
        Err(Error::ObjectNotFound(idn)) => assert!(cur == 5 && *idn == (5, 0), "ObjectNotFound for a chain that resolves"),
        Err(_) => panic!("unexpected error for an acyclic chain"),
    }
    kani::cover!(r.is_ok() && cur == 4);
    kani::cover!(r.is_err());
    std::mem::forget(r);
    std::mem::forget(doc);
}

/// A concrete 2-cycle (1 -> 2 -> 1) and a self reference: terminates with ReferenceLimit after
/// DEREF_LIMIT steps (unwind 132 covers the 128-step limit; concrete, so symbolic execution folds it).
#[kani::proof]
#[kani::unwind(132)]
#[kani::stub(std::hash::RandomState::new, fixed_random_state)]
fn c13_dereference_cycle_limit() {
    let mut doc = Document::new();
    let self_ref: bool = kani::any();
    put(&mut doc, 1, Object::Reference((if self_ref { 1 } else { 2 }, 0)));
    put(&mut doc, 2, Object::Reference((1, 0)));
    let start = Object::Reference((1, 0));
    let r = doc.dereference(&start);
    assert!(matches!(r, Err(Error::ReferenceLimit)), "reference cycle must end in ReferenceLimit");
    let g = doc.get_object((2, 0));
    assert!(g.is_err());
    kani::cover!(self_ref);
    std::mem::forget((r, g));
    std::mem::forget(doc);
}

fn name(s: &[u8]) -> Object {
    Object::Name(s.to_vec())
}

fn pages_node(kids: &[u32]) -> Object {
    let mut d = Dictionary::new();
    d.set("Type", name(b"Pages"));
    let mut a = Vec::with_capacity(4);
    let mut i = 0;
    while i < kids.len() {
        a.push(Object::Reference((kids[i], 0)));
        i += 1;
    }
    d.set("Kids", Object::Array(a));
    Object::Dictionary(d)
}
fn page_leaf() -> Object {
    let mut d = Dictionary::new();
    d.set("Type", name(b"Page"));
    Object::Dictionary(d)
}
fn base_doc() -> Document {
    let mut doc = Document::new();
    let mut cat = Dictionary::new();
    cat.set("Type", name(b"Catalog"));
    cat.set("Pages", Object::Reference((2, 0)));
    put(&mut doc, 1, Object::Dictionary(cat));
    doc.trailer.set("Root", Object::Reference((1, 0)));
    doc
}

/// Page tree with concrete node kinds and fan-out, SYMBOLIC kid references:
///   2 = Pages [a b]   3 = Pages [c]   4 = Pages [d e]   5,6,7 = Page      a..e in 3..=8 (8 dangling)
/// Covers every wiring of that shape: nested / interleaved / empty-ish intermediates, shared kids,
/// cycles (a kid pointing back to 3 or 4), dangling kids.  Compared with a reference depth-first
/// walk that carries the same visit budget the implementation documents (objects.len()).
#[kani::proof]
#[kani::unwind(12)]
#[kani::stub(std::hash::RandomState::new, fixed_random_state)]
#[kani::stub(std::string::String::from_utf8_lossy, crate::object::verif_kani::lossy_stub)]
fn c12_page_iter_wiring() {
    let k: [u32; 5] = kani::any();
    let mut i = 0;
    while i < 5 {
        kani::assume(k[i] >= 3 && k[i] <= 8);
        i += 1;
    }
    let wellformed = {
        // forest: kids point to higher ids only, no node has two parents, nothing dangling
        k[0] != k[1] && k[0] != k[2] && k[0] != k[3] && k[0] != k[4] && k[1] != k[2] && k[1] != k[3] && k[1] != k[4]
            && k[2] != k[3] && k[2] != k[4] && k[3] != k[4]
            && k[2] > 3 && k[3] > 4 && k[4] > 4 && k[0] <= 7 && k[1] <= 7 && k[2] <= 7 && k[3] <= 7 && k[4] <= 7
    };
    let mut doc = base_doc();
    put(&mut doc, 2, pages_node(&[k[0], k[1]]));
    put(&mut doc, 3, pages_node(&[k[2]]));
    put(&mut doc, 4, pages_node(&[k[3], k[4]]));
    put(&mut doc, 5, page_leaf());
    put(&mut doc, 6, page_leaf());
    put(&mut doc, 7, page_leaf());
    // reference DFS with explicit stack of (node, next kid index); budget = number of objects (7)
    let kids_of = |n: u32, j: usize| -> Option<u32> {
        match (n, j) {
            (2, 0) => Some(k[0]),
            (2, 1) => Some(k[1]),
            (3, 0) => Some(k[2]),
            (4, 0) => Some(k[3]),
            (4, 1) => Some(k[4]),
            _ => None,
        }
    };
    let mut exp = [0u32; 8];
    let mut ne = 0;
    let mut st_node = [0u32; 10];
    let mut st_idx = [0usize; 10];
    let mut sp = 1;
    st_node[0] = 2;
    let mut budget = 7;
    let mut guard = 0;
    while sp > 0 && guard < 24 {
        guard += 1;
        let n = st_node[sp - 1];
        let j = st_idx[sp - 1];
        match kids_of(n, j) {
            None => sp -= 1,
            Some(kid) => {
                if budget == 0 {
                    break;
                }
                budget -= 1;
                st_idx[sp - 1] = j + 1;
                if kid >= 5 && kid <= 7 {
                    exp[ne] = kid;
                    ne += 1;
                } else if kid == 3 || kid == 4 {
                    st_node[sp] = kid;
                    st_idx[sp] = 0;
                    sp += 1;
                }
            }
        }
    }
    let mut it = doc.page_iter();
    let mut got = [0u32; 8];
    let mut ng = 0;
    let mut i = 0;
    while i < 8 {
        match it.next() {
            Some(id) => {
                assert!(id.1 == 0 && id.0 >= 5 && id.0 <= 7, "page_iter yielded something that is not a Page object");
                got[ng] = id.0;
                ng += 1;
            }
            None => break,
        }
        i += 1;
    }
    assert!(ng <= 7, "page_iter exceeded its own visit budget");
    if wellformed {
        assert!(ng == ne, "page_iter does not yield exactly the leaf pages of a well-formed tree");
        let mut i = 0;
        while i < 8 {
            if i < ne {
                assert!(got[i] == exp[i], "page_iter is not the depth-first left-to-right order");
            }
            i += 1;
        }
    }
    kani::cover!(wellformed && ne == 3);
    kani::cover!(!wellformed && k[2] == 3);
    std::mem::forget(it);
    std::mem::forget(doc);
}

/// get_pages numbers the pages 1..n in iteration order.
#[kani::proof]
#[kani::unwind(8)]
#[kani::stub(std::hash::RandomState::new, fixed_random_state)]
#[kani::stub(std::string::String::from_utf8_lossy, crate::object::verif_kani::lossy_stub)]
fn c12_get_pages_numbering() {
    let swap: bool = kani::any();
    let (a, b) = if swap { (4u32, 3u32) } else { (3u32, 4u32) };
    let mut doc = base_doc();
    put(&mut doc, 2, pages_node(&[a, b]));
    put(&mut doc, 3, page_leaf());
    put(&mut doc, 4, page_leaf());
    let pages = doc.get_pages();
    assert!(pages.len() == 2);
    assert!(pages.get(&1) == Some(&(a, 0)) && pages.get(&2) == Some(&(b, 0)), "pages are not numbered 1..n in tree order");
    assert!(pages.get(&0).is_none() && pages.get(&3).is_none());
    kani::cover!(swap);
    std::mem::forget(pages);
    std::mem::forget(doc);
}
