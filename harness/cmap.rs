//! C15 / C04 harnesses for src/encodings/cmap.rs (ToUnicode CMap lookup), on the rangemap model.
use super::*;

/// bfrange <lo> <lo+2> [<a> <b> <c>]  followed by  bfchar <c2> <x>  (later definition):
/// every code maps to the target of the LAST definition that covers it; an array target is indexed
/// by the offset from the start of ITS OWN definition (ISO 32000-1 9.10.3, Adobe TN 5014).
#[kani::proof]
#[kani::unwind(8)]
fn c15_array_range_then_char() {
    let lo: u32 = kani::any();
    kani::assume(lo <= 4);
    let t: [u16; 3] = kani::any();
    let c2: u32 = kani::any();
    kani::assume(c2 <= 8);
    let x: u16 = kani::any();
    let mut cmap = ToUnicodeCMap::new();
    cmap.put(lo, lo + 2, 1, BfRangeTarget::ArrayOfHexStrings(vec![vec![t[0]], vec![t[1]], vec![t[2]]]));
    cmap.put_char(c2, 1, vec![x]);
    let code: u32 = kani::any();
    kani::assume(code <= 8);
    let got = cmap.get(code, 1);
    if code == c2 {
        assert!(matches!(&got, Some(v) if v.len() == 1 && v[0] == x), "later bfchar does not win");
    } else if code >= lo && code <= lo + 2 {
        let want = t[(code - lo) as usize];
        assert!(matches!(&got, Some(v) if v.len() == 1 && v[0] == want), "array target not indexed by the offset within its own definition");
    } else {
        assert!(got.is_none(), "unmapped code produced text");
    }
    kani::cover!(c2 == lo && code == lo + 1);
    kani::cover!(c2 == lo + 1 && code == lo + 2);
    std::mem::forget(got);
    std::mem::forget(cmap);
}

/// bfrange <lo> <lo+3> <hh ll> with a two-unit target (e.g. a surrogate pair or ligature): "the
/// last byte of the string shall be incremented" by the offset within the range; a later
/// bfchar overrides one code.
#[kani::proof]
#[kani::unwind(8)]
fn c15_hexstring_range_then_char() {
    let lo: u32 = kani::any();
    kani::assume(lo <= 4);
    let h: u16 = kani::any();
    let l: u16 = kani::any();
    kani::assume(l <= 0xFF00); // no overflow of the incremented unit inside the examined range
    let c2: u32 = kani::any();
    kani::assume(c2 <= 9);
    let x: u16 = kani::any();
    let mut cmap = ToUnicodeCMap::new();
    cmap.put(lo, lo + 3, 1, BfRangeTarget::HexString(vec![h, l]));
    cmap.put_char(c2, 1, vec![x]);
    let code: u32 = kani::any();
    kani::assume(code <= 9);
    let got = cmap.get(code, 1);
    if code == c2 {
        assert!(matches!(&got, Some(v) if v.len() == 1 && v[0] == x), "later bfchar does not win");
    } else if code >= lo && code <= lo + 3 {
        let want = l + (code - lo) as u16;
        assert!(matches!(&got, Some(v) if v.len() == 2 && v[0] == h && v[1] == want), "range target must add the offset within its own definition to the last unit");
    } else {
        assert!(got.is_none(), "unmapped code produced text");
    }
    kani::cover!(c2 == lo + 1 && code == lo + 3);
    std::mem::forget(got);
    std::mem::forget(cmap);
}

/// Single-unit incrementing range (stored as an offset) and code-length separation: a 1-byte code
/// never matches a 2-byte definition with the same numeric value.
#[kani::proof]
#[kani::unwind(8)]
fn c15_codepoint_range_and_len() {
    let lo: u32 = kani::any();
    let n: u32 = kani::any();
    kani::assume(lo <= 200 && n <= 50);
    let base: u16 = kani::any();
    kani::assume(base <= 0xFF00);
    let mut cmap = ToUnicodeCMap::new();
    cmap.put(lo, lo + n, 2, BfRangeTarget::UTF16CodePoint { offset: u32::wrapping_sub(base as u32, lo) });
    let code: u32 = kani::any();
    kani::assume(code <= 300);
    let got2 = cmap.get(code, 2);
    let got1 = cmap.get(code, 1);
    assert!(got1.is_none(), "1-byte code matched a 2-byte definition");
    if code >= lo && code <= lo + n {
        assert!(matches!(&got2, Some(v) if v.len() == 1 && v[0] == base + (code - lo) as u16), "incrementing range target wrong");
    } else {
        assert!(got2.is_none());
    }
    kani::cover!(code == lo + n && n == 50);
    std::mem::forget((got1, got2));
    std::mem::forget(cmap);
}

/// C04: lookups on maps built from hostile definitions never panic: empty target strings, u16
/// overflow of the incremented unit, array shorter than its range, equal adjacent arrays.
#[kani::proof]
#[kani::unwind(8)]
fn c04_cmap_hostile_targets() {
    let lo: u32 = kani::any();
    let n: u32 = kani::any();
    kani::assume(lo <= 4 && n <= 3);
    let l: u16 = kani::any();
    let kind: u8 = kani::any();
    let mut cmap = ToUnicodeCMap::new();
    match kind % 4 {
        0 => cmap.put_char(lo, 1, vec![]),
        1 => cmap.put(lo, lo + n, 1, BfRangeTarget::HexString(vec![l, l])),
        2 => cmap.put(lo, lo + n, 1, BfRangeTarget::ArrayOfHexStrings(vec![vec![l]])),
        _ => {
            // two adjacent ranges with EQUAL array targets (they coalesce in the range map)
            cmap.put(lo, lo + 1, 1, BfRangeTarget::ArrayOfHexStrings(vec![vec![l], vec![l]]));
            cmap.put(lo + 2, lo + 3, 1, BfRangeTarget::ArrayOfHexStrings(vec![vec![l], vec![l]]));
        }
    }
    let code: u32 = kani::any();
    kani::assume(code <= 8);
    let got = cmap.get(code, 1);
    kani::cover!(got.is_some());
    std::mem::forget(got);
    std::mem::forget(cmap);
}
