#[path = "../../../models/rangemap/src/lib.rs"]
mod model;
fn main() {
    let mut seed: u64 = 0x1234_5678_9abc_def1;
    let mut next = move || { seed ^= seed << 13; seed ^= seed >> 7; seed ^= seed << 17; seed };
    let mut cases = 0;
    for _ in 0..20000 {
        let mut real = rangemap::RangeInclusiveMap::<u32, u8>::new();
        let mut m = model::RangeInclusiveMap::<u32, u8>::new();
        let n = 1 + next() % 5;
        for _ in 0..n {
            let a = (next() % 12) as u32;
            let b = a + (next() % 5) as u32;
            let v = (next() % 3) as u8;
            real.insert(a..=b, v);
            m.insert(a..=b, v);
            for k in 0..20u32 {
                let r = real.get_key_value(&k).map(|(r, v)| (*r.start(), *r.end(), *v));
                let q = m.get_key_value(&k).map(|(r, v)| (*r.start(), *r.end(), *v));
                assert_eq!(r, q, "key {k}");
            }
            cases += 1;
        }
    }
    println!("model agrees with rangemap 1.8.0 on {cases} insert sequences steps");
}
