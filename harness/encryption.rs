//! C06 harness for src/encryption.rs: Permissions::p_value (ISO 32000-1 Table 22).
use super::*;

#[kani::proof]
fn c06_permissions_p_value() {
    let bits: u64 = kani::any();
    let p = Permissions::from_bits_truncate(bits);
    let v = p.p_value();
    // Table 22: bits 1-2 reserved, must be 0; bits 7-8 reserved, must be 1; bits 13-32 reserved, must be 1
    assert!(v & 0b11 == 0, "reserved bits 1-2 must be 0");
    assert!(v & (0b11 << 6) == (0b11 << 6), "reserved bits 7-8 must be 1");
    assert!(v & 0xFFFF_F000 == 0xFFFF_F000, "reserved bits 13-32 must be 1");
    // the defined permission bits are exactly the ones that were granted
    let defined: u64 = (1 << 2) | (1 << 3) | (1 << 4) | (1 << 5) | (1 << 8) | (1 << 9) | (1 << 10) | (1 << 11);
    assert!(v & defined == bits & defined, "permission bits changed");
    // as the signed 32-bit integer stored in /P the value is negative (bit 32 set)
    assert!((v as u32 as i32) < 0);
    kani::cover!(bits & defined == defined);
    kani::cover!(bits & defined == 0);
}
