//! C16 harnesses for src/encodings/mod.rs (one-byte encodings).
use super::*;
#[allow(unused_imports)]
use verif_support;

fn table(k: u8) -> &'static CodedCharacterSet {
    match k {
        0 => &STANDARD_ENCODING,
        1 => &MAC_ROMAN_ENCODING,
        2 => &MAC_EXPERT_ENCODING,
        3 => &WIN_ANSI_ENCODING,
        _ => &PDF_DOC_ENCODING,
    }
}

fn single_char(s: &str) -> Option<char> {
    let mut it = s.chars();
    let a = it.next();
    if it.next().is_some() {
        panic!("one byte decoded to more than one character");
    }
    a
}

/// For every predefined table and every byte: decoding never fails (no lone surrogate in any cell)
/// and yields exactly the table cell (at most one character).
fn table_harness(k: u8) {
    let b: u8 = kani::any();
    let t = table(k);
    let s = bytes_to_string(t, &[b]);
    let c = single_char(&s);
    match t[b as usize] {
        None => assert!(c.is_none(), "unmapped byte produced text"),
        Some(u) => assert!(c.map(|c| c as u32) == Some(u as u32), "decoded character differs from the table cell"),
    }
    kani::cover!(c.is_some());
    kani::cover!(c.is_none());
    std::mem::forget(s);
}
macro_rules! table_h {
    ($name:ident, $k:expr) => {
        #[kani::proof]
        #[kani::unwind(6)]
        fn $name() {
            table_harness($k);
        }
    };
}
table_h!(c16_table_standard, 0);
table_h!(c16_table_macroman, 1);
table_h!(c16_table_macexpert, 2);
table_h!(c16_table_winansi, 3);
table_h!(c16_table_pdfdoc, 4);

/// Re-encoding decoded text gives a byte that decodes to the same text (WinAnsi, all 256 bytes).
#[kani::proof]
#[kani::unwind(258)]
fn c16_reencode_winansi() {
    let b: u8 = kani::any();
    let t = &WIN_ANSI_ENCODING;
    let s = bytes_to_string(t, &[b]);
    let back = string_to_bytes(t, &s);
    let s2 = bytes_to_string(t, &back);
    assert!(s2 == s, "decode -> encode -> decode is not stable");
    kani::cover!(back.len() == 1 && back[0] != b);
    std::mem::forget((s, back, s2));
}

/// No cell of any predefined table is a UTF-16 surrogate, so `String::from_utf16` on a decoded
/// single byte cannot fail (bytes_to_string `expect`s it), for every table and every byte.
#[kani::proof]
#[kani::unwind(4)]
fn c16_tables_no_surrogates() {
    let b: u8 = kani::any();
    let k: u8 = kani::any();
    kani::assume(k <= 4);
    match table(k)[b as usize] {
        Some(u) => assert!(u < 0xD800 || u > 0xDFFF, "table cell is a lone surrogate: bytes_to_string would panic"),
        None => {}
    }
    kani::cover!(k == 4 && b == 0xFF);
}

/// Agreement with the published code charts (ISO 32000-1 Annex D), expressed as rules:
/// printable ASCII 0x20..=0x7E is identity in WinAnsi, MacRoman and PDFDoc (Standard differs only at
/// 0x27 quoteright and 0x60 quoteleft); 0xA1..=0xFF except 0xAD equals Latin-1 in WinAnsi and PDFDoc.
#[kani::proof]
#[kani::unwind(4)]
fn c16_tables_published_rules() {
    let b: u8 = kani::any();
    if b >= 0x20 && b <= 0x7E {
        assert!(WIN_ANSI_ENCODING[b as usize] == Some(b as u16), "WinAnsi printable ASCII");
        assert!(MAC_ROMAN_ENCODING[b as usize] == Some(b as u16), "MacRoman printable ASCII");
        assert!(PDF_DOC_ENCODING[b as usize] == Some(b as u16), "PDFDoc printable ASCII");
        if b == 0x27 {
            assert!(STANDARD_ENCODING[b as usize] == Some(0x2019), "Standard 0x27 is quoteright");
        } else if b == 0x60 {
            assert!(STANDARD_ENCODING[b as usize] == Some(0x2018), "Standard 0x60 is quoteleft");
        } else {
            assert!(STANDARD_ENCODING[b as usize] == Some(b as u16), "Standard printable ASCII");
        }
    }
    if b >= 0xA1 && b != 0xAD {
        assert!(WIN_ANSI_ENCODING[b as usize] == Some(b as u16), "WinAnsi Latin-1 range");
        assert!(PDF_DOC_ENCODING[b as usize] == Some(b as u16), "PDFDoc Latin-1 range");
    }
    kani::cover!(b == 0xFF);
}

/// encode_utf16_be: BOM then big-endian code units (surrogate pair for astral characters).
#[kani::proof]
#[kani::unwind(8)]
fn c16_encode_utf16_be() {
    let c: char = kani::any();
    let mut b = [0u8; 4];
    let s: &str = c.encode_utf8(&mut b);
    let v = encode_utf16_be(s);
    let cp = c as u32;
    assert!(v.len() >= 2 && v[0] == 0xFE && v[1] == 0xFF);
    if cp < 0x10000 {
        assert!(v.len() == 4 && v[2] == (cp >> 8) as u8 && v[3] == cp as u8, "BMP character must be one big-endian unit");
    } else {
        let x = cp - 0x10000;
        let hi = 0xD800 + (x >> 10);
        let lo = 0xDC00 + (x & 0x3FF);
        assert!(v.len() == 6 && v[2] == (hi >> 8) as u8 && v[3] == hi as u8 && v[4] == (lo >> 8) as u8 && v[5] == lo as u8, "astral character must be a surrogate pair");
    }
    kani::cover!(cp >= 0x10000);
    std::mem::forget(v);
}

/// string_to_bytes for every printable ASCII character in StandardEncoding and WinAnsiEncoding:
/// the byte found is the table position of that character (Standard: apostrophe and grave accent
/// live at 0xA9 / 0xC1 because 0x27 / 0x60 are the typographic quotes).
fn s2b_harness(k: u8) {
    let b: u8 = kani::any();
    kani::assume(b >= 0x20 && b <= 0x7E);
    let buf = [b];
    let s = match std::str::from_utf8(&buf) {
        Ok(s) => s,
        Err(_) => unreachable!(),
    };
    let t = table(k);
    let out = string_to_bytes(t, s);
    assert!(out.len() == 1, "a character the table contains must encode to one byte");
    assert!(t[out[0] as usize] == Some(b as u16), "string_to_bytes returned a byte that does not decode to the character");
    kani::cover!(b == 0x27);
    std::mem::forget(out);
}
#[kani::proof]
#[kani::unwind(258)]
fn c16_string_to_bytes_standard_ascii() {
    s2b_harness(0);
}
#[kani::proof]
#[kani::unwind(258)]
fn c16_string_to_bytes_winansi_ascii() {
    s2b_harness(3);
}

/// PDFDocEncoding decode of one ASCII byte (the branch decode_text_string takes for a text string
/// without byte-order mark): every byte 0x00..0x7F yields exactly one character.  text_string()
/// keeps ASCII text - including TAB, LF, CR and the other C0 controls - as these bytes, so a byte
/// that decodes to nothing breaks the text-string round trip.
#[kani::proof]
#[kani::unwind(6)]
fn c16_pdfdoc_decode_ascii_byte() {
    let b: u8 = kani::any();
    kani::assume(b < 0x80);
    // the bytes text_string() may emit for ASCII text: those PDFDocEncoding maps to themselves
    kani::assume(PDF_DOC_ENCODING[b as usize] == Some(b as u16));
    let s = bytes_to_string(&PDF_DOC_ENCODING, &[b]);
    assert!(s.len() == 1, "an ASCII byte of a PDFDocEncoding text string does not decode to exactly one ASCII character");
    kani::cover!(b == 0x41);
    std::mem::forget(s);
}

/// Witness helper for c16_pdfdoc_decode_ascii_byte (same single `kani::any::<u8>()` input, same
/// assumption): which ASCII cells of the PDFDocEncoding table are undefined.  Its counterexample
/// values are cheap to extract and are replayed natively through the function-level harness above.
#[kani::proof]
#[kani::unwind(2)]
fn c16_pdfdoc_ascii_cells_defined() {
    let b: u8 = kani::any();
    kani::assume(b < 0x80);
    assert!(b >= 0x18 && b <= 0x1F || PDF_DOC_ENCODING[b as usize] == Some(b as u16), "PDFDocEncoding does not map an ASCII code (outside the accent cells 0x18..0x1F) to itself");
    kani::cover!(b == 0x41);
}

/// encode_utf8: EF BB BF followed by the UTF-8 bytes of the text (2-byte class).
#[kani::proof]
#[kani::unwind(6)]
fn c16_encode_utf8() {
    let cp: u32 = kani::any();
    kani::assume(cp >= 0x80 && cp <= 0x7FF);
    let kb = [0xC0 | (cp >> 6) as u8, 0x80 | (cp & 0x3F) as u8];
    let s = verif_support::str_from_valid_utf8(&kb);
    let v = encode_utf8(s);
    assert!(v.len() == 5 && v[0] == 0xEF && v[1] == 0xBB && v[2] == 0xBF && v[3] == kb[0] && v[4] == kb[1], "encode_utf8 must be BOM + the UTF-8 bytes");
    kani::cover!(cp == 0x7FF);
    std::mem::forget(v);
}
