#!/bin/bash
# usage: verify_seed.sh <PROP> <k>   -- confirms a sub-agent's seeded defect in its scratch worktree /tmp/seed/<PROP>
# 1. clean tree: demo passes   2. patched: builds, suite passes (except annotation_count), demo fails   3. restore
P=$1; K=$2; W=${SEED_ROOT:-/tmp/seed}/$P; S=$W/_seed
cd $W || exit 9
export CARGO_NET_OFFLINE=true
git checkout -q -- src; rm -f tests/verif_demo.rs
cp $S/demo$K.rs tests/verif_demo.rs
echo "== clean tree: demo must pass"
cargo test --offline --test verif_demo > $S/verify$K.clean.log 2>&1; C=$?
echo "clean demo rc=$C"
git apply $S/patch$K.diff || { echo "PATCH DOES NOT APPLY"; exit 8; }
echo "== patched: suite"
mv tests/verif_demo.rs /tmp/verif_demo_$P.rs; cargo test --offline --no-fail-fast > $S/verify$K.suite.log 2>&1; mv /tmp/verif_demo_$P.rs tests/verif_demo.rs
FAILED=$(grep -E "^test .* FAILED$" $S/verify$K.suite.log | grep -v "verif_demo\|^test demo\|annotation_count" | sort -u)
echo "suite failures other than annotation_count/demo: [$FAILED]"
echo "== patched: demo must fail"
cargo test --offline --test verif_demo > $S/verify$K.patched.log 2>&1; D=$?
echo "patched demo rc=$D"
git checkout -q -- src; rm -f tests/verif_demo.rs
if [ $C -eq 0 ] && [ $D -ne 0 ] && [ -z "$FAILED" ]; then echo "SEED-CONFIRMED $P $K"; else echo "SEED-REJECTED $P $K"; fi
