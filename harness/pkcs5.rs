//! C05 / C06 harnesses for src/encryption/pkcs5.rs.
use super::*;

/// pad at any position of any 16-byte block, then unpad: the data part comes back unchanged
/// (PKCS#5 / RFC 2898: pad with n bytes of value n, 1 <= n <= 16).
#[kani::proof]
#[kani::unwind(18)]
fn c05_pkcs5_roundtrip() {
    let orig: [u8; 16] = kani::any();
    let pos: usize = kani::any();
    kani::assume(pos < 16);
    let mut block = orig;
    Pkcs5::raw_pad(&mut block, pos);
    // padding bytes all equal 16 - pos
    let mut i = 0;
    while i < 16 {
        if i < pos {
            assert!(block[i] == orig[i], "padding modified data bytes");
        } else {
            assert!(block[i] as usize == 16 - pos, "padding byte value is not the pad length");
        }
        i += 1;
    }
    match Pkcs5::raw_unpad(&block) {
        Ok(data) => {
            assert!(data.len() == pos, "unpad returns a different length");
            let mut i = 0;
            while i < 16 {
                if i < pos {
                    assert!(data[i] == orig[i]);
                }
                i += 1;
            }
        }
        Err(_) => panic!("unpad rejects what pad produced"),
    }
    kani::cover!(pos == 0);
    kani::cover!(pos == 15);
}

/// unpad of an arbitrary block agrees with the definition: accepted iff the last byte n is in 1..=16
/// and the last n bytes all equal n; then exactly n bytes are removed.
#[kani::proof]
#[kani::unwind(18)]
fn c05_pkcs5_unpad_spec() {
    let block: [u8; 16] = kani::any();
    let n = block[15] as usize;
    let mut well_formed = n >= 1 && n <= 16;
    if well_formed {
        let mut i = 0;
        while i < 16 {
            if i >= 16 - n && block[i] as usize != n {
                well_formed = false;
            }
            i += 1;
        }
    }
    match Pkcs5::raw_unpad(&block) {
        Ok(data) => {
            assert!(well_formed, "malformed padding accepted");
            assert!(data.len() == 16 - n);
        }
        Err(_) => assert!(!well_formed, "well-formed padding rejected"),
    }
    kani::cover!(well_formed && n == 16);
    kani::cover!(!well_formed && n <= 16 && n >= 2);
}
