"""Scratch-copy builder: puts /repo's *current working tree* in front of kani-compiler.

Nothing is written to /repo.  Every check run
  1. copies src/, Cargo.toml, Cargo.lock, README.md of the repository to a scratch directory,
  2. appends one `#[cfg(kani)] #[path = ".../harness/<m>.rs"] mod verif_kani;` line to every source
     file that has a harness module (child modules see their parent's private items),
  3. appends [patch.crates-io] entries for the model crates and the cfg(kani) support dependency,
  4. records SHA-256 of every copied source file (goes into the evidence).
"""
import hashlib
import os
import shutil
import subprocess
import sys

VERIF = os.path.dirname(os.path.dirname(os.path.abspath(__file__)))
REPO = os.environ.get("VERIF_REPO", "/repo")

# harness module file -> source file (relative to the crate root) it is injected into
INJECT = {
    "png.rs": "src/filters/png.rs",
    "writer.rs": "src/writer.rs",
    "object.rs": "src/object.rs",
    "object_stream.rs": "src/object_stream.rs",
    "parser_aux.rs": "src/parser_aux.rs",
    "xref.rs": "src/xref.rs",
    "reader.rs": "src/reader.rs",
    "document.rs": "src/document.rs",
    "cmap.rs": "src/encodings/cmap.rs",
    "encodings.rs": "src/encodings/mod.rs",
    "cds.rs": "src/common_data_structures/mod.rs",
    "encryption.rs": "src/encryption.rs",
    "algorithms.rs": "src/encryption/algorithms.rs",
    "crypt_filters.rs": "src/encryption/crypt_filters.rs",
    "pkcs5.rs": "src/encryption/pkcs5.rs",
    "rc4.rs": "src/encryption/rc4.rs",
    "content.rs": "src/content.rs",
    "processor.rs": "src/processor.rs",
    "creator.rs": "src/creator.rs",
    "bookmarks.rs": "src/bookmarks.rs",
    "incremental_document.rs": "src/incremental_document.rs",
    "outlines.rs": "src/outlines.rs",
    "destinations.rs": "src/destinations.rs",
    "toc.rs": "src/toc.rs",
    "datetime.rs": "src/datetime.rs",
    "lib.rs": "src/lib.rs",
}

# harness modules that only compile when a particular model crate is patched in
REQUIRES = {"crypt_filters.rs": "md-5", "algorithms.rs": "md-5", "cmap.rs": "rangemap"}

# model crates patched in (name -> dir under /verif/models); which ones apply is chosen per build flavour
MODELS_ALL = ["indexmap", "rangemap", "flate2", "weezl", "md-5", "sha2", "rand"]


def sha256_file(p):
    h = hashlib.sha256()
    with open(p, "rb") as f:
        for chunk in iter(lambda: f.read(1 << 16), b""):
            h.update(chunk)
    return h.hexdigest()


def make_scratch(dest, models, harness_cfg="kani", copy_harness=False):
    """Create the scratch crate at `dest` from REPO's working tree. Returns {relpath: sha256}."""
    if os.path.exists(dest):
        shutil.rmtree(dest)
    os.makedirs(dest)
    for name in ("Cargo.toml", "Cargo.lock", "README.md"):
        shutil.copy2(os.path.join(REPO, name), os.path.join(dest, name))
    shutil.copytree(os.path.join(REPO, "src"), os.path.join(dest, "src"))
    # assets are needed by some in-tree unit tests only when replaying natively with `cargo test`;
    # link instead of copying
    for d in ("assets", "examples"):
        if os.path.isdir(os.path.join(REPO, d)):
            os.symlink(os.path.join(REPO, d), os.path.join(dest, d))
    hashes = {}
    for root, _dirs, files in os.walk(os.path.join(dest, "src")):
        for f in files:
            p = os.path.join(root, f)
            hashes[os.path.relpath(p, dest)] = sha256_file(p)
    hashes["Cargo.toml"] = sha256_file(os.path.join(dest, "Cargo.toml"))

    # snapshot harness modules and model crates into the scratch dir so that a running check is not
    # disturbed by later edits under /verif
    hdir = os.path.join(dest, "verif_harness")
    shutil.copytree(os.path.join(VERIF, "harness"), hdir)
    mdir = os.path.join(dest, "verif_models")
    shutil.copytree(os.path.join(VERIF, "models"), mdir)
    for hfile, src in INJECT.items():
        hp = os.path.join(hdir, hfile)
        sp = os.path.join(dest, src)
        if not os.path.exists(hp):
            continue
        if hfile in REQUIRES and REQUIRES[hfile] not in (models or []):
            continue
        if not os.path.exists(sp):
            raise SystemExit(f"verif: anchored source file {src} is missing from {REPO}")
        with open(sp, "a") as f:
            f.write(f'\n#[cfg({harness_cfg})]\n#[path = "{hp}"]\npub(crate) mod verif_kani;\n')
    # shared helpers, visible as crate::verif_common
    cp = os.path.join(hdir, "common.rs")
    if os.path.exists(cp):
        with open(os.path.join(dest, "src/lib.rs"), "a") as f:
            f.write(f'\n#[cfg({harness_cfg})]\n#[path = "{cp}"]\npub(crate) mod verif_common;\n')

    with open(os.path.join(dest, "Cargo.toml"), "a") as f:
        f.write("\n# ---- appended by /verif/tools/scratch.py (scratch copy only) ----\n")
        f.write("[workspace]\n\n")
        f.write("[target.'cfg(kani)'.dependencies]\n")
        f.write(f'verif_support = {{ path = "{mdir}/verif_support" }}\n\n')
        f.write("[lints.rust]\nunexpected_cfgs = { level = \"allow\" }\n\n")
        if models:
            f.write("[patch.crates-io]\n")
            for m in models:
                f.write(f'{m} = {{ path = "{mdir}/{m}" }}\n')
    return hashes


if __name__ == "__main__":
    dest = sys.argv[1]
    models = sys.argv[2].split(",") if len(sys.argv) > 2 and sys.argv[2] else []
    make_scratch(dest, models)
    print(dest)
