//! C14 harnesses for src/content.rs (Content::encode).  Child module of `crate::content`.
use super::*;
use crate::verif_common::*;
use crate::writer::verif_kani::{is_regular, is_ws, ref_read_int, ref_read_literal, ref_read_name};
use crate::StringFormat;

fn skip_one_space(s: &[u8], pos: &mut usize, what: u8) {
    assert!(*pos < s.len() && s[*pos] == what, "operands/operations are not separated as the content grammar requires");
    *pos += 1;
}

/// Reads a regular-character token (number or operator keyword) and returns its end.
fn regular_end(s: &[u8], mut pos: usize) -> usize {
    while pos < s.len() && is_regular(s[pos]) {
        pos += 1;
    }
    pos
}

/// Two operations:  <int> <name> Tf  \n  <string> Tj   with symbolic integer, name byte and string byte.
/// A reference content tokenizer (ISO 32000-1 7.8.2 / 7.2) recovers the same operators and operands in order.
#[kani::proof]
#[kani::unwind(20)]
#[kani::stub(<[usize]>::contains, slice_contains_lin)]
fn c14_encode_two_ops() {
    let i: i64 = kani::any();
    kani::assume(i >= -9 && i <= 99);
    let n: u8 = kani::any();
    let s: u8 = kani::any();
    let hex: bool = kani::any();
    let ops = vec![
        Operation { operator: String::from("Tf"), operands: vec![Object::Integer(i), Object::Name(vec![n])] },
        Operation {
            operator: String::from("Tj"),
            operands: vec![Object::String(vec![s], if hex { StringFormat::Hexadecimal } else { StringFormat::Literal })],
        },
    ];
    let c = Content { operations: ops };
    let r = c.encode();
    let out = match &r {
        Ok(v) => v.as_slice(),
        Err(_) => panic!("encode failed"),
    };
    assert!(out.len() <= 24);
    let mut pos = 0;
    // operand 1: integer
    let e = regular_end(out, pos);
    assert!(ref_read_int(&out[pos..e]) == Some(i as i128), "integer operand does not read back");
    pos = e;
    skip_one_space(out, &mut pos, b' ');
    // operand 2: name
    let mut nb = Buf::<4>::new();
    let used = ref_read_name::<4>(&out[pos..], &mut nb);
    assert!(used.is_some() && nb.n == 1 && nb.b[0] == n, "name operand does not read back");
    pos += used.unwrap();
    skip_one_space(out, &mut pos, b' ');
    // operator
    assert!(pos + 2 <= out.len() && out[pos] == b'T' && out[pos + 1] == b'f', "operator missing");
    pos += 2;
    skip_one_space(out, &mut pos, b'\n');
    // second operation
    if hex {
        assert!(pos + 4 <= out.len() && out[pos] == b'<' && out[pos + 3] == b'>', "hex string operand framing");
        pos += 4;
    } else {
        let mut sb = Buf::<8>::new();
        let used = ref_read_literal::<8>(&out[pos..], &mut sb);
        assert!(used.is_some() && sb.n == 1 && sb.b[0] == s, "string operand does not read back");
        pos += used.unwrap();
    }
    skip_one_space(out, &mut pos, b' ');
    assert!(pos + 2 == out.len() && out[pos] == b'T' && out[pos + 1] == b'j', "operator missing / trailing bytes");
    assert!(!is_ws(out[out.len() - 1]));
    kani::cover!(!hex && s == b'(' && n == b'#');
    std::mem::forget(r);
    std::mem::forget(c);
}

/// Operator-only operations and empty content.
#[kani::proof]
#[kani::unwind(8)]
fn c14_encode_no_operands() {
    let two: bool = kani::any();
    let mut ops = vec![Operation { operator: String::from("q"), operands: vec![] }];
    if two {
        ops.push(Operation { operator: String::from("Q"), operands: vec![] });
    }
    let c = Content { operations: ops };
    let r = c.encode();
    match &r {
        Ok(v) => {
            if two {
                assert!(v.len() == 3 && v[0] == b'q' && v[1] == b'\n' && v[2] == b'Q');
            } else {
                assert!(v.len() == 1 && v[0] == b'q');
            }
        }
        Err(_) => panic!("encode failed"),
    }
    kani::cover!(two);
    std::mem::forget(r);
    std::mem::forget(c);
}

fn slice_contains_lin<T: PartialEq>(s: &[T], x: &T) -> bool {
    let mut i = 0;
    while i < s.len() {
        if s[i] == *x {
            return true;
        }
        i += 1;
    }
    false
}

/// Operations held in a stack array (their operand-vector lengths then stay concrete for the
/// solver): two operand-less operations are separated by exactly one newline, no trailing bytes.
#[kani::proof]
#[kani::unwind(4)]
fn c14_encode_stack_no_operands() {
    let ops = [
        Operation { operator: String::from("q"), operands: Vec::new() },
        Operation { operator: String::from("Q"), operands: Vec::new() },
    ];
    let c = Content { operations: ops };
    let r = c.encode();
    match &r {
        Ok(v) => {
            // operators must be separate tokens: at least one white-space byte between them, no other bytes
            let n = v.len();
            assert!(n >= 3 && v[0] == b'q' && v[n - 1] == b'Q', "operators missing or trailing bytes");
            let mut i = 1;
            while i < n - 1 {
                assert!(is_ws(v[i]), "only white space may separate two operand-less operations");
                i += 1;
            }
        }
        Err(_) => panic!("encode failed"),
    }
    kani::cover!(true);
    std::mem::forget(r);
    std::mem::forget(c);
}

/// One integer operand: `<int> Tf`-style framing (operand, one space, operator) for all i8 values.
#[kani::proof]
#[kani::unwind(5)]
fn c14_encode_stack_int_operand() {
    let i: i8 = kani::any();
    let ops = [Operation { operator: String::from("w"), operands: vec![Object::Integer(i as i64)] }];
    let c = Content { operations: ops };
    let r = c.encode();
    match &r {
        Ok(v) => {
            let n = v.len();
            assert!(n >= 3 && v[n - 1] == b'w' && v[n - 2] == b' ', "operand and operator must be separated by one space");
            assert!(ref_read_int(&v[..n - 2]) == Some(i as i128), "integer operand does not read back");
        }
        Err(_) => panic!("encode failed"),
    }
    kani::cover!(i < 0);
    std::mem::forget(r);
    std::mem::forget(c);
}
