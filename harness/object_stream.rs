//! C04 harness for src/object_stream.rs: the index block of an object stream (object number /
//! offset pairs) is read without the nom parser; only `parser::direct_object` is nom and is
//! replaced by a stub that finds no object.
use super::*;
use crate::{Dictionary, Object as Obj};

fn stub_direct_object(_input: ParserInput) -> Option<Obj> {
    None
}

/// Hostile index block: any 4 bytes, any /First in 0..=4, any /N: ObjectStream::new returns a
/// value or an error, never panics (odd number of integers, /N larger than the index, non-digits,
/// invalid UTF-8, huge offsets).
#[kani::proof]
#[kani::unwind(7)]
#[kani::stub(crate::parser::direct_object, stub_direct_object)]
#[kani::stub(std::string::String::from_utf8_lossy, crate::object::verif_kani::lossy_stub)]
fn c04_objstm_hostile_index() {
    let content: [u8; 4] = kani::any();
    let first: i64 = kani::any();
    kani::assume(first >= 0 && first <= 4);
    let n: i64 = kani::any();
    let mut d = Dictionary::new();
    d.set("First", first);
    d.set("N", n);
    let mut s = Stream::new(d, content.to_vec());
    let r = ObjectStream::new(&mut s);
    kani::cover!(r.is_ok());
    kani::cover!(r.is_err());
    std::mem::forget(r);
    std::mem::forget(s);
}

/// Concrete index blocks (odd and even number of integers, trailing garbage), ANY /N: no panic.
/// (The declared object count is attacker-controlled and independent of what the index block holds.)
fn objstm_concrete(content: &'static [u8], first: i64) {
    let n: i64 = kani::any();
    let mut d = Dictionary::new();
    d.set("First", first);
    d.set("N", n);
    let mut s = Stream::new(d, content.to_vec());
    let r = ObjectStream::new(&mut s);
    assert!(r.is_ok(), "index block is well-formed UTF-8 digits: must not be an error");
    kani::cover!(n == 2);
    kani::cover!(n < 0);
    std::mem::forget(r);
    std::mem::forget(s);
}
#[kani::proof]
#[kani::unwind(12)]
#[kani::stub(crate::parser::direct_object, stub_direct_object)]
#[kani::stub(std::string::String::from_utf8_lossy, crate::object::verif_kani::lossy_stub)]
fn c04_objstm_odd_index_any_n() {
    objstm_concrete(b"10 0 11 null", 8);
}
#[kani::proof]
#[kani::unwind(12)]
#[kani::stub(crate::parser::direct_object, stub_direct_object)]
#[kani::stub(std::string::String::from_utf8_lossy, crate::object::verif_kani::lossy_stub)]
fn c04_objstm_even_index_any_n() {
    objstm_concrete(b"10 0 11 5 null null", 10);
}
