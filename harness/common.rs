//! Helpers shared by all harness modules (compiled only under cfg(kani)).
#![allow(dead_code)]

/// Arbitrary value in lo..=hi.
pub fn any_in(lo: usize, hi: usize) -> usize {
    let v: usize = kani::any();
    kani::assume(v >= lo && v <= hi);
    v
}

/// Fieldwise slice comparison with an explicit loop (bounded by the harness' unwind).
pub fn same_bytes(a: &[u8], b: &[u8]) -> bool {
    if a.len() != b.len() {
        return false;
    }
    let mut i = 0;
    while i < a.len() {
        if a[i] != b[i] {
            return false;
        }
        i += 1;
    }
    true
}

/// Fixed-capacity byte buffer used by reference implementations (arrays only, no heap).
#[derive(Clone, Copy)]
pub struct Buf<const N: usize> {
    pub b: [u8; N],
    pub n: usize,
}
impl<const N: usize> Buf<N> {
    pub fn new() -> Self {
        Buf { b: [0u8; N], n: 0 }
    }
    pub fn push(&mut self, x: u8) {
        assert!(self.n < N, "reference buffer too small (harness bug)");
        self.b[self.n] = x;
        self.n += 1;
    }
    pub fn as_slice(&self) -> &[u8] {
        &self.b[..self.n]
    }
}

pub fn hex_upper(n: u8) -> u8 {
    if n < 10 {
        b'0' + n
    } else {
        b'A' + (n - 10)
    }
}
