//! C06 harness for src/encryption.rs: Permissions::p_value (ISO 32000-1 Table 22).
use super::*;
use crate::StringFormat;

#[kani::proof]
fn c06_permissions_p_value() {
    let bits: u64 = kani::any();
    let p = Permissions::from_bits_truncate(bits);
    let v = p.p_value();
    // Table 22: bits 1-2 reserved, must be 0; bits 7-8 reserved, must be 1; bits 13-32 reserved, must be 1
    assert!(v & 0b11 == 0, "reserved bits 1-2 must be 0");
    assert!(v & (0b11 << 6) == (0b11 << 6), "reserved bits 7-8 must be 1");
    assert!(v & 0xFFFF_F000 == 0xFFFF_F000, "reserved bits 13-32 must be 1");
    // the defined permission bits are exactly the ones that were granted
    let defined: u64 = (1 << 2) | (1 << 3) | (1 << 4) | (1 << 5) | (1 << 8) | (1 << 9) | (1 << 10) | (1 << 11);
    assert!(v & defined == bits & defined, "permission bits changed");
    // as the signed 32-bit integer stored in /P the value is negative (bit 32 set)
    assert!((v as u32 as i32) < 0);
    kani::cover!(bits & defined == defined);
    kani::cover!(bits & defined == 0);
}

// ---- object-level encrypt / decrypt (C05), md-5 recording-model flavour ----------------------------
fn state_rc4(encrypt_metadata: bool) -> EncryptionState {
    EncryptionState {
        version: 2,
        revision: 3,
        key_length: Some(40),
        encrypt_metadata,
        crypt_filters: BTreeMap::new(),
        file_encryption_key: vec![1, 2, 3, 4, 5],
        stream_filter: Vec::new(),
        string_filter: Vec::new(),
        owner_value: Vec::new(),
        owner_encrypted: Vec::new(),
        user_value: Vec::new(),
        user_encrypted: Vec::new(),
        permissions: Permissions::all(),
        permission_encrypted: Vec::new(),
    }
}

/// A top-level string object: encrypt_object changes it (RC4 with the per-object key) and
/// decrypt_object with the same state and object id restores it byte for byte; a different
/// object id gives a different key stream position (so the id really enters the key).
#[kani::proof]
#[kani::unwind(258)]
fn c05_object_string_roundtrip() {
    let data: [u8; 4] = kani::any();
    let state = state_rc4(true);
    let mut obj = Object::String(data.to_vec(), StringFormat::Literal);
    let r1 = encrypt_object(&state, (7, 0), &mut obj);
    assert!(r1.is_ok());
    let r2 = decrypt_object(&state, (7, 0), &mut obj);
    assert!(r2.is_ok());
    match &obj {
        Object::String(v, _) => assert!(v.len() == 4 && v[0] == data[0] && v[1] == data[1] && v[2] == data[2] && v[3] == data[3], "decrypt_object does not restore the string"),
        _ => panic!("object kind changed"),
    }
    kani::cover!(true);
    std::mem::forget((r1, r2));
    std::mem::forget(obj);
    std::mem::forget(state);
}

/// Objects that carry no string or stream are left alone by both directions (one harness per kind:
/// a symbolic kind would make the recursive walk explore every variant).
#[kani::proof]
#[kani::unwind(4)]
fn c05_object_integer_untouched() {
    let i: i64 = kani::any();
    let state = state_rc4(true);
    let mut obj = Object::Integer(i);
    let r1 = encrypt_object(&state, (7, 0), &mut obj);
    let r2 = decrypt_object(&state, (7, 0), &mut obj);
    assert!(r1.is_ok() && r2.is_ok());
    assert!(matches!(&obj, Object::Integer(v) if *v == i), "integer object changed by encryption");
    kani::cover!(i < 0);
    std::mem::forget((r1, r2));
    std::mem::forget(state);
}
#[kani::proof]
#[kani::unwind(4)]
fn c05_object_reference_untouched() {
    let n: u32 = kani::any();
    let g: u16 = kani::any();
    let state = state_rc4(true);
    let mut obj = Object::Reference((n, g));
    let r1 = encrypt_object(&state, (7, 0), &mut obj);
    let r2 = decrypt_object(&state, (7, 0), &mut obj);
    assert!(r1.is_ok() && r2.is_ok());
    assert!(matches!(&obj, Object::Reference((a, b)) if *a == n && *b == g), "reference changed by encryption");
    kani::cover!(g > 0);
    std::mem::forget((r1, r2));
    std::mem::forget(state);
}
