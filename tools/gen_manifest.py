#!/usr/bin/env python3
"""Regenerates MANIFEST.json from tools/manifest_data.py (single source of truth for claims)."""
import json, os, sys
HERE = os.path.dirname(os.path.abspath(__file__))
sys.path.insert(0, HERE)
import manifest_data as md
import registry

checks = []
for pid, c in sorted(md.CLAIMS.items()):
    assert registry.select(pid, "quick"), pid
    checks.append({
        "property_id": pid,
        "quick_cmd": f"./check {pid} --tier quick",
        "thorough_cmd": f"./check {pid} --tier thorough",
        "evidence_file": f"/verif/evidence/{pid}.json",
        "replay_cmd_template": "./check --replay {path}",
        "engine": "kani-cbmc",
        "level_claimed": {"category": "model_checking", "text": c["text"], "design_ref": c["design_ref"]},
        "level_note": c["note"],
        "technique": md.TECHNIQUE,
    })
na = [{"property_id": p, "reason": r} for p, r in sorted(md.NOT_APPLICABLE.items())]
allp = {json.loads(l)["id"] for l in open(os.path.join(HERE, "..", "properties.jsonl"))}
assert allp == set(md.CLAIMS) | set(md.NOT_APPLICABLE), allp ^ (set(md.CLAIMS) | set(md.NOT_APPLICABLE))
m = {
    "version": 1,
    "setup_cmd": "./setup.sh",
    "hooks": md.HOOKS,
    "engines": [{"name": "kani-cbmc", "path": "/verif/tools/vcheck.py", "serves_properties": sorted(md.CLAIMS),
                 "kind_free_text": "bounded model checker (Kani 0.68 / CBMC 6.11 / CaDiCaL) run on a scratch copy of /repo's working tree with harness modules injected as child modules; native concrete-playback replay of every counterexample"}],
    "checks": checks,
    "not_applicable": na,
    "notes": md.NOTES,
}
json.dump(m, open(os.path.join(HERE, "..", "MANIFEST.json"), "w"), indent=1)
print("MANIFEST.json written:", len(checks), "claimed,", len(na), "not applicable")
