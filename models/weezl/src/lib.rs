//! Verification stub of `weezl` for the API subset lopdf uses (decode side only).
//! Tagged transparent decoder: output byte i = input byte i XOR tag, where the tag records how the
//! decoder was constructed, so a harness can observe that lopdf passed `EarlyChange` correctly:
//!   Decoder::with_tiff_size_switch (EarlyChange = 1, the default)  -> 0xA5
//!   Decoder::new                   (EarlyChange = 0)               -> 0xAA
//! LZW bit-level decoding itself is outside every claim.
use std::io::{self, Write};

pub const TAG_LZW_EARLY: u8 = 0xA5;
pub const TAG_LZW_LATE: u8 = 0xAA;

#[derive(Clone, Copy, Debug, PartialEq, Eq)]
pub enum BitOrder {
    Msb,
    Lsb,
}

pub struct StreamResult {
    pub bytes_read: usize,
    pub bytes_written: usize,
    pub status: Result<(), io::Error>,
}

pub mod decode {
    use super::*;
    pub struct Decoder {
        tag: u8,
    }
    impl Decoder {
        pub fn new(_order: BitOrder, _size: u8) -> Decoder {
            Decoder { tag: TAG_LZW_LATE }
        }
        pub fn with_tiff_size_switch(_order: BitOrder, _size: u8) -> Decoder {
            Decoder { tag: TAG_LZW_EARLY }
        }
        pub fn into_stream<W: Write>(&mut self, writer: W) -> IntoStream<'_, W> {
            IntoStream { decoder: self, writer }
        }
    }
    pub struct IntoStream<'d, W> {
        decoder: &'d mut Decoder,
        writer: W,
    }
    impl<'d, W: Write> IntoStream<'d, W> {
        pub fn decode_all(mut self, input: &[u8]) -> StreamResult {
            let mut i = 0;
            while i < input.len() {
                if let Err(e) = self.writer.write_all(&[input[i] ^ self.decoder.tag]) {
                    return StreamResult { bytes_read: i, bytes_written: i, status: Err(e) };
                }
                i += 1;
            }
            StreamResult { bytes_read: input.len(), bytes_written: input.len(), status: Ok(()) }
        }
    }
}
