"""Harness registry: which #[kani::proof] decides which property, at which tier, with which bound.

Tiers: Q = quick (run on every change), T = thorough only, X = kept in the harness files as a
measured negative result (did not reach a verdict inside the caps on this machine; never selected,
listed in DESIGN.md section 5).  `fs_size` = CBMC --max-field-sensitivity-array-size for this harness.
"""

DEFAULT_MODELS = ["indexmap", "flate2", "weezl", "log"]
MD5M = DEFAULT_MODELS + ["md-5"]
RM = DEFAULT_MODELS + ["rangemap"]

HARNESSES = []


def H(name, module, props, funcs, bound, timeout=600, mem_gb=8, **kw):
    d = dict(name=name, module=module, props=props, funcs=funcs, bound=bound, timeout=timeout, mem_gb=mem_gb)
    d.update(kw)
    HARNESSES.append(d)


Q, T, X = "quick", "thorough", "disabled"
LS = ["std::string::String::from_utf8_lossy -> empty text (error message of Dictionary::get is irrelevant)"]
CONTAINS = ["<[usize]>::contains -> linear scan (same semantics)"]

# =============================== C09 / C04: PNG predictors ======================================
H("c09_paeth", "png.rs", {"C09": Q}, ["filters::png::paeth_predict"],
  "all 2^24 (left, above, upper-left) triples vs PNG 9.4 text", timeout=300, mem_gb=4)
for ft in ("none", "sub", "up", "avg", "paeth"):
    H(f"c09_row_{ft}_4", "png.rs", {"C09": Q, "C04": Q}, ["filters::png::decode_row"],
      "all rows of length 0..=4 x previous rows x bpp 1..=3 vs PNG 9.2 reconstruction", timeout=400, mem_gb=4)
for g, tier in (("row2_bpp1", X), ("row2_bpp2", X), ("row3_bpp3", X)):
    H(f"c09_frame_{g}", "png.rs", {"C09": tier, "C04": tier}, ["filters::png::decode_frame", "filters::png::decode_row"],
      f"geometry {g}: two rows, all filter bytes (valid and invalid) and data bytes vs PNG 9.2 reconstruction", timeout=900)
H("c09_frame_truncated", "png.rs", {"C09": X, "C04": X}, ["filters::png::decode_frame"], "row length 2, 5 bytes of data (second row truncated): error", timeout=600)

# =============================== C09 / C04: ASCII85 =============================================
for n, tier, to, mem in ((1, Q, 400, 6), (2, Q, 600, 8), (3, T, 1500, 12), (4, X, 900, 10), (5, X, 1800, 10), (6, X, 2700, 10), (7, X, 3600, 10)):
    H(f"c09_ascii85_eod_{n}", "object.rs", {"C09": tier, "C04": tier}, ["object::Stream::decode_ascii85"],
      f"all 256^{n} bodies of exactly {n} bytes followed by the EOD marker '~>' vs ISO 32000-1 7.4.3 reference decoder (and no panic)", timeout=to, mem_gb=mem)
for n in (2, 3):
    H(f"c09_ascii85_noeod_{n}", "object.rs", {"C09": X}, ["object::Stream::decode_ascii85"], f"all inputs of exactly {n} bytes without EOD marker", timeout=1800, mem_gb=10)
for n in (4, 5, 6):
    H(f"c04_ascii85_nopanic_{n}", "object.rs", {"C04": Q}, ["object::Stream::decode_ascii85"], f"all 256^{n} inputs of exactly {n} bytes (with or without EOD, any garbage): Ok or Err, no panic (overflow checks on)", timeout=600, mem_gb=6)

H("c04_objstm_hostile_index", "object_stream.rs", {"C04": X}, ["object_stream::ObjectStream::new"],
  "object stream with ANY 4 content bytes, /First 0..=4, ANY /N: value or error, no panic; parser::direct_object stubbed (finds nothing)", timeout=1500, mem_gb=14,
  stubs=LS + ["parser::direct_object -> None (nom parser out of reach)"])

for v, d in (("odd", "'10 0 11' (three integers)"), ("even", "'10 0 11 5' (two pairs)")):
    H(f"c04_objstm_{v}_index_any_n", "object_stream.rs", {"C04": X}, ["object_stream::ObjectStream::new"],
      f"object stream whose index block is {d}, ANY /N (i64): no panic and Ok; parser::direct_object stubbed (finds nothing)", timeout=1200, mem_gb=12,
      stubs=LS + ["parser::direct_object -> None (nom parser out of reach)"])

# =============================== C09 / C04: predictor plumbing, Length, compress =================
H("c09_predictor_params", "object.rs", {"C09": Q}, ["object::Stream::decompress_predictor"],
  "Predictor 0..=20, Columns 1..=10^6, Colors 1..=32, Bits in {8,16}, each key an integer or null (= absent); png::decode_frame replaced by a recording stub",
  timeout=900, mem_gb=10, stubs=["filters::png::decode_frame -> recording stub"] + LS)
H("c09_predictor_none", "object.rs", {"C09": Q}, ["object::Stream::decompress_predictor"], "no DecodeParms, all 3-byte data", timeout=300, mem_gb=4)
H("c04_predictor_params_any", "object.rs", {"C04": Q, "C09": Q}, ["object::Stream::decompress_predictor"],
  "Predictor 12 with ANY i64 Columns, Colors, BitsPerComponent (overflow checks on); decode_frame replaced by a recording stub",
  timeout=600, mem_gb=8, stubs=["filters::png::decode_frame -> recording stub"] + LS)
for g in ("c2_k1_b8", "c1_k1_b16", "c1_k3_b8", "c2_k1_b16"):
    H(f"c09_predictor_frame_{g}", "object.rs", {"C09": X}, ["object::Stream::decompress_predictor", "filters::png::decode_frame"],
      f"geometry {g}, two rows through dictionary + real decode_frame", timeout=600)
H("c09_length_set_content", "object.rs", {"C09": Q}, ["object::Stream::new", "object::Stream::set_content"], "3-byte initial content, 2 symbolic new bytes, stream with Filter", timeout=400, mem_gb=6, stubs=LS)
H("c09_length_set_plain_content", "object.rs", {"C09": X}, ["object::Stream::set_plain_content"], "3-byte initial content, 2 symbolic new bytes", timeout=600, stubs=LS)
H("c09_length_decompress", "object.rs", {"C09": X}, ["object::Stream::decompress"], "3 symbolic bytes through the tagged inflate stub", timeout=600, stubs=LS)
H("c09_decompress_bookkeeping", "object.rs", {"C09": Q}, ["object::Stream::decompress", "object::Stream::set_content"],
  "stream with Filter and DecodeParms, decoding stubbed to two fixed bytes: Filter and DecodeParms removed, content replaced, Length updated", timeout=900, mem_gb=12,
  stubs=LS + ["object::Stream::decompressed_content -> fixed two bytes (decompress()'s bookkeeping only)"])
for v, d in (("0", "/EarlyChange 0"), ("1", "/EarlyChange 1"), ("absent", "no /EarlyChange (default 1)")):
    H(f"c09_lzw_early_change_{v}", "object.rs", {"C09": Q}, ["object::Stream::decompress_lzw", "object::Stream::decompress_lzw_loop", "object::Stream::decompress_predictor"],
      f"LZW stage called directly with {d}, all 3-byte inputs; weezl replaced by the tagged stub (decoder variant observable)", timeout=900, mem_gb=6, stubs=LS + ["filters::png::decode_frame -> recording stub (predictor is not the subject)"])
H("c09_stage_no_params", "object.rs", {"C09": Q}, ["object::Stream::decompress_zlib", "object::Stream::decompress_lzw"], "Flate and LZW stages called directly without parameters, all 3-byte inputs", timeout=600, mem_gb=8)
H("c09_compress_never_longer", "object.rs", {"C09": Q}, ["object::Stream::compress", "object::Stream::set_content"],
  "22-byte content, encoder stub output length arbitrary 0..=24: never longer, Length consistent, Filter set iff replaced", timeout=900, mem_gb=12, stubs=LS + ["flate2::write::ZlibEncoder -> output of arbitrary length"])
H("c09_compress_prefiltered", "object.rs", {"C09": Q}, ["object::Stream::compress"], "22-byte content, stream already has a Filter: untouched", timeout=400, mem_gb=6, stubs=LS)
for n in ("c09_chain_flate_name_dict", "c09_chain_lzw_array_dict", "c09_chain_parms_array_1", "c09_chain_parms_array_2", "c09_chain_order_a85_flate", "c09_chain_order_3", "c09_chain_unknown_filter"):
    H(n, "object.rs", {"C09": X}, ["object::Stream::decompressed_content"], "filter-chain plumbing over tagged codec stubs (did not reach a verdict)", timeout=900, stubs=LS)

# =============================== C01 / C03 / C14: writer kernels ================================
WK = {"C01": Q, "C03": Q, "C14": Q}
WKS = {"C01": Q, "C03": Q, "C14": Q, "C16": Q}  # literal strings also carry shown text (C16: "also after the document is saved")
WKT = {"C01": T, "C03": T, "C14": T}
WKX = {"C01": X}
for n, pr, to, mem in ((1, WK, 400, 6), (2, WK, 600, 8), (3, WK, 600, 8), (4, WKT, 900, 8)):
    H(f"c01_name_{n}", "writer.rs", pr, ["writer::Writer::write_name"],
      f"all names of exactly {n} bytes: token is regular printable ASCII and an ISO 7.3.5 reader recovers the bytes", timeout=to, mem_gb=mem)
for n, pr, to, mem in ((1, WKS, 400, 6), (2, WKS, 1200, 16), (3, WKX, 900, 10), (4, WKX, 2700, 10)):
    H(f"c01_litstr_{n}", "writer.rs", pr, ["writer::Writer::write_string"],
      f"all literal strings of exactly {n} bytes: an ISO 7.3.4.2 reader (escapes, octal, balanced parentheses, EOL normalisation) recovers the bytes",
      timeout=to, mem_gb=mem, stubs=CONTAINS)
SEP = ["writer::Writer::need_separator", "writer::Writer::need_end_separator", "writer::Writer::write_object"]
SEPP = {"C01": Q, "C03": Q, "C14": Q}
H("c01_separator_null", "writer.rs", SEPP, SEP, "null: separator predicates agree with the first/last byte write_object emits", timeout=600, mem_gb=6)
H("c01_separator_bool", "writer.rs", SEPP, SEP, "true, false: separator predicates agree with the first/last byte write_object emits", timeout=600, mem_gb=6)
H("c01_separator_integer", "writer.rs", SEPP, SEP, "all i16 integers: separator predicates agree with the first/last byte emitted", timeout=900, mem_gb=8)
H("c01_separator_reference", "writer.rs", SEPP, SEP, "references with id, generation 0..=255: separator predicates agree with the first/last byte emitted", timeout=900, mem_gb=10)
H("c01_separator_name", "writer.rs", {"C01": Q, "C03": Q, "C14": Q}, ["writer::Writer::need_separator", "writer::Writer::need_end_separator", "writer::Writer::write_name"],
  "all 1-byte names: separator predicates agree with the first/last byte emitted", timeout=900, mem_gb=8)
AR = ["writer::Writer::write_array", "writer::Writer::need_separator", "writer::Writer::write_object"]
H("c01_array_int_int", "writer.rs", SEPP, AR, "array of two integers, all i8 x i8: two separated tokens that read back", timeout=900, mem_gb=8)
for v in ("null", "true", "int"):
    H(f"c01_array_name_then_{v}", "writer.rs", SEPP, AR, f"array [/n {v}] for every regular 1-byte name n: name and following token separated, second token spelled correctly", timeout=900, mem_gb=10)
H("c01_array_string_pairs", "writer.rs", SEPP, AR, "[(c) 5] and [<hh> /N] for every byte c that needs no escape: exact framing", timeout=900, mem_gb=10, stubs=CONTAINS)
H("c01_array_scalar_pairs", "writer.rs", SEPP, AR, "[true N], [null null], [3 0 R N] for N in 0..=9: exact bytes", timeout=900, mem_gb=8)
H("c01_keywords_and_reference", "writer.rs", SEPP, ["writer::Writer::write_object"], "null / true / false spellings; references for all u16 ids x u8 generations read back as 'id gen R'", timeout=900, mem_gb=8)
H("c01_hexstr_2", "writer.rs", WK, ["writer::Writer::write_string"], "all hex strings of 2 bytes", timeout=400, mem_gb=6)
H("c01_int_i16", "writer.rs", WK, ["writer::Writer::write_object"], "all i16 integers read back by a decimal reader", timeout=600, mem_gb=8)
H("c01_int_i64", "writer.rs", WKX, ["writer::Writer::write_object"], "all i64 integers", timeout=2700, mem_gb=10)
H("c03_xref_entry", "writer.rs", {"C03": T, "C01": T}, ["xref::XrefEntry::write_xref_entry"], "ALL (u32 offset, u16 generation): in-use entry is exactly 20 bytes 'nnnnnnnnnn ggggg n' + 2-byte EOL and both fields read back", timeout=3000, mem_gb=6)
H("c03_xref_entry_free", "writer.rs", {"C03": Q, "C01": Q}, ["xref::XrefEntry::write_xref_entry"], "Free / UnusableFree / Compressed entries are 20-byte 'f' entries", timeout=600, mem_gb=8)
H("c01_xrefstm_entry_packing", "parser_aux.rs", {"C01": Q, "C03": Q, "C02": Q}, ["parser_aux::read_big_endian_integer"],
  "all (u8,u32,u16) entries packed [1 4 2] big-endian are read back by the reader's field decoder", timeout=400, mem_gb=4)
H("c03_indirect_object_scalar", "writer.rs", {"C03": X, "C01": X}, ["writer::Writer::write_indirect_object", "writer::Writer::need_separator", "writer::Writer::need_end_separator", "writer::CountingWrite"],
  "all object numbers (u32), generations (u16), start offsets 0..=1000, object in {null, true, false, 7}: exact framing and xref entry (offset, generation)", timeout=1500, mem_gb=12)
H("c01_hexstr_4", "writer.rs", WK, ["writer::Writer::write_string"], "all hex strings of 4 bytes", timeout=900, mem_gb=8)
H("c03_xref_section_header", "writer.rs", {"C03": Q, "C01": Q}, ["xref::XrefSection::write_xref_section", "xref::XrefEntry::write_xref_entry"], "subsection with first id ANY u16 and two entries (in use, free): header line and 2 x 20 bytes", timeout=1800, mem_gb=8)
H("c02_field_decoder_widths", "parser_aux.rs", {"C01": Q, "C03": Q}, ["parser_aux::read_big_endian_integer"], "widths 0, 1, 3 over all 4-byte data; reading past the end is an error", timeout=600, mem_gb=6)
H("c03_binary_mark", "writer.rs", {"C03": Q, "C01": Q}, ["writer::Writer::write_binary_mark"], "all 4-byte marks: '%' + mark + LF iff every byte >= 128, otherwise an error and no output", timeout=600, mem_gb=6)
for v, d in (("1_4", "{1,4} (gap of two ids)"), ("2", "{2} (gap before and after)"), ("1_2_3", "{1,2,3} (no gap, trailing gap)"), ("4", "{4} (gap of three ids)")):
    H(f"c03_write_xref_ids_{v}", "writer.rs", {"C03": X}, ["writer::Writer::write_xref", "xref::XrefSection::write_xref_section", "xref::XrefEntry::write_xref_entry"],
      f"in-use objects {d} among ids 1..=4, offsets 100*id+d with d symbolic 0..=9: a strict 7.5.4 table reader finds object 0 free and exactly these entries with their own offsets", timeout=1800, mem_gb=12)
H("c03_write_xref_subsets4", "writer.rs", {"C03": X}, ["writer::Writer::write_xref"], "all 16 subsets of ids 1..=4", timeout=1800, mem_gb=12)
H("c03_write_xref_gaps6", "writer.rs", {"C03": X}, ["writer::Writer::write_xref"], "selected subsets of ids 1..=6", timeout=1800, mem_gb=12)
H("c03_xref_stream_rows", "writer.rs", {"C03": X}, ["writer::Writer::create_xref_steam"], "all 16 subsets of ids 1..=4", timeout=1800, mem_gb=12)
H("c14_encode_stack_no_operands", "content.rs", {"C14": Q}, ["content::Content::encode"], "two operand-less operations held in a stack array: 'q' LF 'Q'", timeout=600, mem_gb=8)
H("c14_encode_stack_int_operand", "content.rs", {"C14": X}, ["content::Content::encode", "writer::Writer::write_object"], "one operation with one integer operand, all i8 values: '<int> w'", timeout=900, mem_gb=10)
H("c14_encode_two_ops", "content.rs", {"C14": X}, ["content::Content::encode"], "two operations with symbolic operands", timeout=1800, mem_gb=12, stubs=CONTAINS)
H("c14_encode_no_operands", "content.rs", {"C14": X}, ["content::Content::encode"], "one or two operand-less operations", timeout=600, mem_gb=6)

# =============================== C19 / C03: CountingWrite under faulty sinks =====================
for v, d, mem in (("hard_error", "hard Err when the budget is used up", 14), ("zero_write", "Ok(0) when the budget is used up", 6), ("interrupted", "one transient Interrupted at any offset, then hard Err", 12)):
    H(f"c19_counting_write_{v}", "writer.rs", {"C19": Q, "C03": Q}, ["writer::CountingWrite::write", "writer::CountingWrite::write_all"],
      f"sink budget 0..=9, chunk 1..=3, {d}; 7 bytes (4 symbolic) through write_all twice", timeout=900, mem_gb=mem)
H("c19_write_stream_chunked", "writer.rs", {"C19": Q, "C03": Q}, ["writer::Writer::write_stream", "writer::Writer::write_dictionary"],
  "empty dictionary, 5 symbolic content bytes, sink accepting at most 4 bytes per call: delivered bytes are exactly the framing + content", timeout=900, mem_gb=10)
H("c19_counting_write_partial", "writer.rs", {"C19": Q}, ["writer::CountingWrite::write"], "single write of 4 bytes to a sink accepting 0..=4 bytes", timeout=300, mem_gb=4)

# =============================== C16 / C04: text strings, one-byte encodings =====================
TS = ["common_data_structures::text_string", "common_data_structures::decode_text_string", "encodings::encode_utf16_be", "encodings::bytes_to_string"]
for k, rng in ((1, "U+0000..U+007F (all ASCII incl. C0 controls and DEL)"), (2, "U+0080..U+07FF"), (3, "U+0800..U+FFFF without surrogates"), (4, "U+10000..U+10FFFF")):
    H(f"c16_text_string_rt_utf8len{k}", "cds.rs", {"C16": X}, TS, f"every scalar value in {rng} as a one-character string: text_string then decode_text_string returns it", timeout=900, mem_gb=10)
H("c16_text_string_utf8_bom_len2", "cds.rs", {"C16": Q}, ["common_data_structures::decode_text_string", "encodings::encode_utf8"], "every scalar value U+0080..U+07FF, UTF-8 with byte-order mark: decodes to the text without the mark", timeout=900, mem_gb=10)
H("c16_pdfdoc_decode_ascii_byte", "encodings.rs", {"C16": Q}, ["encodings::bytes_to_string", "encodings::mappings::PDF_DOC_ENCODING"],
  "every ASCII byte 0x00..0x7F through bytes_to_string(PDF_DOC_ENCODING): exactly one character comes out", timeout=900, mem_gb=12,
  witness_from="c16_pdfdoc_ascii_cells_defined")
H("c16_pdfdoc_ascii_cells_defined", "encodings.rs", {"C16": X}, ["encodings::mappings::PDF_DOC_ENCODING"], "witness helper: ASCII cells of the table are defined", timeout=300, mem_gb=4)
H("c16_decode_pdfdoc_ascii_1", "cds.rs", {"C16": T}, ["common_data_structures::decode_text_string", "encodings::bytes_to_string"], "every one-byte ASCII string (0x00..0x7F, i.e. what text_string() emits for a one-character ASCII text incl. C0 controls): decodes to exactly one character", timeout=900, mem_gb=16)
H("c16_decode_utf16_unit", "cds.rs", {"C16": Q}, ["common_data_structures::decode_text_string"], "FE FF + every non-surrogate UTF-16 unit: decodes to that character", timeout=900, mem_gb=8)
H("c16_decode_utf16_pair", "cds.rs", {"C16": Q}, ["common_data_structures::decode_text_string"], "FE FF + every surrogate pair: decodes to the astral character", timeout=900, mem_gb=8)
H("c16_text_string_dispatch", "cds.rs", {"C16": Q}, ["common_data_structures::text_string", "encodings::encode_utf16_be"], "every scalar value <= U+07FF as a one-character text: ASCII stays one literal byte, the rest becomes BOM + UTF-16BE", timeout=900, mem_gb=10, stubs=["<str>::is_ascii -> byte loop (same semantics)"])
H("c16_text_string_ascii_1", "cds.rs", {"C16": X}, ["common_data_structures::text_string", "common_data_structures::decode_text_string"], "every ASCII character as a one-character string", timeout=900, mem_gb=12, fs_size=300)
H("c16_text_string_rt_1", "cds.rs", {"C16": X}, ["common_data_structures::text_string", "common_data_structures::decode_text_string"], "every Unicode scalar value", timeout=900, mem_gb=8)
H("c16_text_string_rt_2", "cds.rs", {"C16": X}, ["common_data_structures::text_string"], "every pair of scalar values", timeout=2700, mem_gb=12)
H("c16_text_string_utf8_bom", "cds.rs", {"C16": X}, ["common_data_structures::decode_text_string"], "every scalar value, UTF-8 with BOM", timeout=900, mem_gb=8)
for n, tier, to in ((3, Q, 600), (4, Q, 900), (5, T, 1500)):
    H(f"c04_decode_text_string_{n}", "cds.rs", {"C04": tier, "C16": tier}, ["common_data_structures::decode_text_string", "encodings::bytes_to_string"],
      f"all 256^{n} raw strings of exactly {n} bytes (any BOM, odd-length UTF-16, lone surrogates, invalid UTF-8): Ok or Err, never a panic", timeout=to, mem_gb=8)
for t in ("standard", "macroman", "macexpert", "winansi", "pdfdoc"):
    H(f"c16_table_{t}", "encodings.rs", {"C16": X}, ["encodings::bytes_to_string"], f"{t} table x all 256 bytes through bytes_to_string", timeout=600, mem_gb=6)
H("c16_reencode_winansi", "encodings.rs", {"C16": X}, ["encodings::string_to_bytes"], "WinAnsi x all 256 bytes", timeout=3000, mem_gb=8)
for t in ("standard", "winansi"):
    H(f"c16_string_to_bytes_{t}_ascii", "encodings.rs", {"C16": X}, ["encodings::string_to_bytes"],
      f"{t}: every printable ASCII character encodes to one byte whose table cell is that character", timeout=1200, mem_gb=10)
H("c16_encode_utf8", "encodings.rs", {"C16": Q}, ["encodings::encode_utf8"], "every scalar U+0080..U+07FF: BOM + UTF-8 bytes", timeout=600, mem_gb=6)
H("c16_tables_no_surrogates", "encodings.rs", {"C16": Q, "C04": Q}, ["encodings::mappings::{STANDARD,MAC_ROMAN,MAC_EXPERT,WIN_ANSI,PDF_DOC}_ENCODING"],
  "5 tables x all 256 bytes: no cell is a UTF-16 surrogate (so bytes_to_string's expect cannot fire on any single byte)", timeout=300, mem_gb=4)
H("c16_tables_published_rules", "encodings.rs", {"C16": Q}, ["encodings::mappings"], "all 256 bytes vs Annex D rules (printable ASCII, Latin-1 range)", timeout=300, mem_gb=4)
H("c16_encode_utf16_be", "encodings.rs", {"C16": Q}, ["encodings::encode_utf16_be"], "every Unicode scalar value: BOM + big-endian units / surrogate pair", timeout=600, mem_gb=8)

# =============================== C05 / C06: primitives ===========================================
H("c05_pkcs5_roundtrip", "pkcs5.rs", {"C05": Q, "C06": Q}, ["encryption::pkcs5::Pkcs5::raw_pad", "encryption::pkcs5::Pkcs5::raw_unpad"],
  "all 16-byte blocks x all pad positions 0..=15", timeout=400, mem_gb=4)
H("c05_pkcs5_unpad_spec", "pkcs5.rs", {"C05": Q, "C06": Q}, ["encryption::pkcs5::Pkcs5::raw_unpad"], "all 16-byte blocks: accepted iff PKCS#5-well-formed", timeout=400, mem_gb=4)
H("c06_rc4_key_vector", "rc4.rs", {"C05": Q, "C06": Q}, ["encryption::rc4::Rc4::new", "encryption::rc4::Rc4::encrypt", "encryption::rc4::Rc4::decrypt", "encryption::rc4::Rc4::apply_keystream"],
  "key 'Key' (published test vector), all 8-byte plaintexts: ciphertext = plaintext XOR published keystream; decrypt inverts encrypt", timeout=1200, mem_gb=10, fs_size=300)
H("c06_rc4_long_stream", "rc4.rs", {"C06": Q, "C05": T}, ["encryption::rc4::Rc4::new", "encryption::rc4::Rc4::apply_keystream"], "key 'Key', 262-byte stream (last 6 bytes symbolic): ciphertext bytes 250..262 equal the reference RC4 (index wrap-around after 255 bytes)", timeout=1500, mem_gb=10, fs_size=300, witness_from="c06_rc4_long_witness")
H("c06_rc4_long_witness", "rc4.rs", {"C06": X}, [], "witness helper for c06_rc4_long_stream", timeout=300, mem_gb=4)
H("c06_rc4_ref_key40", "rc4.rs", {"C06": T, "C05": T}, ["encryption::rc4::Rc4::new", "encryption::rc4::Rc4::apply_keystream"], "one concrete 40-bit key, all 6-byte plaintexts vs an independent reference RC4", timeout=1200, mem_gb=10, fs_size=300)
H("c06_rc4_ref_key128", "rc4.rs", {"C06": T, "C05": T}, ["encryption::rc4::Rc4::new", "encryption::rc4::Rc4::apply_keystream"], "one concrete 128-bit key, all 6-byte plaintexts vs an independent reference RC4", timeout=1200, mem_gb=10, fs_size=300)
H("c06_rc4_ref_symkey1", "rc4.rs", {"C06": X}, ["encryption::rc4::Rc4::new"], "every 1-byte key", timeout=2700, mem_gb=16, fs_size=300)
H("c06_rc4_ref_symkey2", "rc4.rs", {"C06": X}, ["encryption::rc4::Rc4::new"], "every 2-byte key", timeout=2700, mem_gb=16, fs_size=300)
for v, d in (("rc4_key40", "RC4, 40-bit file key"), ("rc4_key128", "RC4, 128-bit file key"), ("aes_key128", "AESV2 (adds 'sAlT'), 128-bit file key")):
    H(f"c06_alg1_{v}", "crypt_filters.rs", {"C06": Q}, ["encryption::crypt_filters::Rc4CryptFilter::compute_key", "encryption::crypt_filters::Aes128CryptFilter::compute_key"],
      f"Algorithm 1, {d}: all file keys x all object numbers (u32) x all generations (u16): the MD5 input is key || id[0..3] LE || gen[0..2] LE (|| 'sAlT'), one digest, truncated to min(n+5,16); MD5 replaced by the recording model", timeout=600, mem_gb=6, models=MD5M, replay_models=["md-5"], stubs=["md-5 -> transparent recording hash model"])
A2 = ["encryption::algorithms::PasswordAlgorithm::compute_file_encryption_key_r4", "encryption::Permissions::p_value"]
for v, d in (("r2_pw5", "revision 2, 5-byte password"), ("r2_pw0", "revision 2, empty password (full padding string)"), ("r2_pw33", "revision 2, 33-byte password (truncated to 32, no padding)"), ("r3_key40_pw0", "revision 3, 40-bit key, empty password"), ("r3_key128_pw33", "revision 3, 128-bit key, 33-byte password (truncated to 32)"), ("r4_key128_pw5", "revision 4, 128-bit key, 5-byte password, EncryptMetadata symbolic")):
    H(f"c06_alg2_{v}", "algorithms.rs", {"C06": Q if v.startswith("r2_") else X}, A2,
      f"Algorithm 2, {d}: all passwords x all 32-byte O x all P x all 8-byte file ids: MD5 input, number of MD5 rounds (1+50) and truncations as the standard prescribes; MD5 replaced by the recording model",
      timeout=2400, mem_gb=6 if v.startswith("r2_") else 26, models=MD5M, replay_models=["md-5"], stubs=["md-5 -> transparent recording hash model", "std::hash::RandomState::new -> fixed keys"] + LS)
H("c06_alg1a_aes256_key", "crypt_filters.rs", {"C06": Q}, ["encryption::crypt_filters::Aes256CryptFilter::compute_key"], "Algorithm 1.A: all 32-byte keys, object numbers and generations: key used as is, no MD5", timeout=600, mem_gb=6, models=MD5M, replay_models=["md-5"])
H("c05_identity_filter", "crypt_filters.rs", {"C05": Q}, ["encryption::crypt_filters::IdentityCryptFilter"], "all 4-byte data, all 5-byte keys: encrypt and decrypt are the identity", timeout=300, mem_gb=4, models=MD5M, replay_models=["md-5"])
H("c05_rc4_filter_roundtrip", "crypt_filters.rs", {"C05": T}, ["encryption::crypt_filters::Rc4CryptFilter::encrypt", "encryption::crypt_filters::Rc4CryptFilter::decrypt"], "concrete 10-byte object key, all 6-byte data: decrypt(encrypt(x)) == x", timeout=1500, mem_gb=12, models=MD5M, replay_models=["md-5"], fs_size=300)
EO = ["encryption::encrypt_object", "encryption::decrypt_object", "encryption::EncryptionState::get_string_filter", "encryption::crypt_filters::Rc4CryptFilter"]
H("c05_object_string_roundtrip", "encryption.rs", {"C05": X}, EO, "top-level string of 4 symbolic bytes, RC4 (V2/R3, concrete 40-bit file key), object (7,0): decrypt_object(encrypt_object(x)) == x", timeout=1500, mem_gb=12, fs_size=300)
H("c05_object_integer_untouched", "encryption.rs", {"C05": Q}, EO, "all i64 integer objects: both directions leave them unchanged", timeout=600, mem_gb=8)
H("c05_object_reference_untouched", "encryption.rs", {"C05": Q}, EO, "all references: both directions leave them unchanged", timeout=600, mem_gb=8)
H("c06_permissions_p_value", "encryption.rs", {"C06": Q}, ["encryption::Permissions::p_value"], "all 2^64 bit patterns vs ISO 32000-1 Table 22 reserved bits", timeout=300, mem_gb=4)

# =============================== C02 / C07 / C12 / C13 / C15: measured negative results ==========
XF = ["parser_aux::decode_xref_stream"]
for n in ("c02_xrefstm_index_c6_w2", "c02_xrefstm_noindex_c6_w2", "c02_xrefstm_index_c8_w4", "c02_xrefstm_two_sections", "c04_xrefstm_hostile_widths", "c04_xrefstm_hostile_index"):
    H(n, "parser_aux.rs", {"C02": X}, XF, "cross-reference stream decoding vs ISO 7.5.8 reference (did not reach a verdict)", timeout=1200, mem_gb=12, stubs=LS)
for w in ("w121", "w020", "w132"):
    H(f"c02_xrefstm_rec_{w}", "parser_aux.rs", {"C02": X}, XF + ["parser_aux::read_big_endian_integer", "parser_aux::parse_integer_array"],
      f"cross-reference stream with widths {w[1]} {w[2]} {w[3]}, Index [start 2] (start 0..=1000), all contents of two entries: entries handed to the table (recorded; Xref::insert stubbed) equal the ISO 7.5.8.3 reference", timeout=1500, mem_gb=12,
      stubs=LS + ["xref::Xref::insert -> recorder (std BTreeMap insertion is out of reach)"])
H("c07_xref_merge_newest_wins", "xref.rs", {"C07": X}, ["xref::Xref::merge"], "newer = {1,2,4}, older = {2,3,4}", timeout=900)
H("c02_xref_max_id", "xref.rs", {"C02": X}, ["xref::Xref::max_id"], "any three ids", timeout=600)
for n in ("ab_3", "aa_4"):
    H(f"c02_search_substring_{n}", "reader.rs", {"C02": X}, ["reader::Reader::search_substring"], f"pattern/buffer {n}", timeout=900)
RS = ["std::hash::RandomState::new -> fixed keys"]
for n in ("c13_dereference_chain", "c13_dereference_cycle_limit", "c12_page_iter_wiring", "c12_get_pages_numbering"):
    H(n, "document.rs", {"C12": X}, ["document::Document"], "document-level harness (did not reach a verdict)", timeout=1200, mem_gb=12, stubs=RS)
CM = ["encodings::cmap::ToUnicodeCMap::put", "encodings::cmap::ToUnicodeCMap::put_char", "encodings::cmap::ToUnicodeCMap::get"]
RMS = ["rangemap::RangeInclusiveMap -> sorted-Vec model of the documented contract (overwrite, split, coalesce)"]
H("c15_array_range_then_char", "cmap.rs", {"C15": X}, CM, "bfrange lo..lo+2 (lo 0..=4) with array target of 3 symbolic units, then bfchar at any code 0..=8; all codes 0..=8", timeout=1200, models=RM, stubs=RMS)
H("c15_hexstring_range_then_char", "cmap.rs", {"C15": X}, CM, "bfrange lo..lo+3 with two-unit target, then bfchar at any code 0..=9; all codes 0..=9", timeout=1200, models=RM, stubs=RMS)
H("c15_codepoint_range_and_len", "cmap.rs", {"C15": X}, CM, "2-byte incrementing range lo..lo+n (lo<=200, n<=50), all codes 0..=300 at code length 1 and 2", timeout=1200, models=RM, stubs=RMS)
H("c04_cmap_hostile_targets", "cmap.rs", {"C15": X}, CM, "empty target, overflowing increment, array shorter than range, equal adjacent arrays; all codes 0..=8: no panic", timeout=1200, models=RM, stubs=RMS)



def select(pid, tier):
    out = []
    for h in HARNESSES:
        t = h["props"].get(pid)
        if t is None or t == X:
            continue
        if tier == "thorough" or t == Q:
            out.append(h)
    return out


def by_name(name):
    for h in HARNESSES:
        if h["name"] == name:
            return h
    raise KeyError(name)
