//! Harnesses for src/writer.rs (C01, C03, C14, C19).  Child module of `crate::writer`.
use super::*;
use crate::verif_common::*;
#[allow(unused_imports)]
use verif_support;

/// Fixed-capacity sink: no heap growth, so reading the produced bytes back is cheap for the solver.
pub(crate) struct ArrSink<const K: usize> {
    pub b: [u8; K],
    pub n: usize,
}
impl<const K: usize> ArrSink<K> {
    pub fn new() -> Self {
        ArrSink { b: [0u8; K], n: 0 }
    }
    pub fn out(&self) -> &[u8] {
        &self.b[..self.n]
    }
}
impl<const K: usize> Write for ArrSink<K> {
    fn write(&mut self, buf: &[u8]) -> Result<usize> {
        let mut i = 0;
        while i < buf.len() {
            assert!(self.n < K, "harness sink too small (harness bug)");
            self.b[self.n] = buf[i];
            self.n += 1;
            i += 1;
        }
        Ok(buf.len())
    }
    /// Overridden so that the default `write_all` loop (with its `io::Error` inspection and drop
    /// glue, very expensive for the model checker) is not part of the harness-side sink.
    fn write_all(&mut self, buf: &[u8]) -> Result<()> {
        let mut i = 0;
        while i < buf.len() {
            assert!(self.n < K, "harness sink too small (harness bug)");
            self.b[self.n] = buf[i];
            self.n += 1;
            i += 1;
        }
        Ok(())
    }
    fn flush(&mut self) -> Result<()> {
        Ok(())
    }
}

// ------------------------------------------------------------------------------------------------
// ISO 32000-1 lexical reference (7.2.2 character set, 7.3.5 names, 7.3.4 strings)
// ------------------------------------------------------------------------------------------------
pub(crate) fn is_ws(b: u8) -> bool {
    b == 0 || b == 9 || b == 10 || b == 12 || b == 13 || b == 32
}
pub(crate) fn is_delim(b: u8) -> bool {
    b == b'(' || b == b')' || b == b'<' || b == b'>' || b == b'[' || b == b']' || b == b'{' || b == b'}' || b == b'/' || b == b'%'
}
pub(crate) fn is_regular(b: u8) -> bool {
    !is_ws(b) && !is_delim(b)
}
fn hexval(b: u8) -> Option<u8> {
    if b >= b'0' && b <= b'9' {
        Some(b - b'0')
    } else if b >= b'a' && b <= b'f' {
        Some(b - b'a' + 10)
    } else if b >= b'A' && b <= b'F' {
        Some(b - b'A' + 10)
    } else {
        None
    }
}

/// 7.3.5: reads a name token starting at `s[0] == '/'`; returns (decoded bytes, consumed) or None.
/// "#" followed by two hex digits denotes that byte; regular characters stand for themselves; the
/// token ends at the first white-space or delimiter.
pub(crate) fn ref_read_name<const M: usize>(s: &[u8], out: &mut Buf<M>) -> Option<usize> {
    if s.is_empty() || s[0] != b'/' {
        return None;
    }
    let mut i = 1;
    while i < s.len() && is_regular(s[i]) {
        if s[i] == b'#' {
            if i + 3 > s.len() {
                return None;
            }
            let h = hexval(s[i + 1])?;
            let l = hexval(s[i + 2])?;
            out.push(h * 16 + l);
            i += 3;
        } else {
            out.push(s[i]);
            i += 1;
        }
    }
    Some(i)
}

fn name_harness<const N: usize, const K: usize>() {
    let name: [u8; N] = kani::any();
    let mut sink = ArrSink::<K>::new();
    let r = Writer::write_name(&mut sink, &name[..]);
    assert!(r.is_ok());
    let out = sink.out();
    // (1) the token is lexically one name: '/' then only regular characters, all printable ASCII
    assert!(out.len() >= 1 && out[0] == b'/');
    let mut i = 1;
    while i < out.len() {
        assert!(is_regular(out[i]), "name token contains a delimiter or white-space byte");
        i += 1;
    }
    // (2) an ISO reader recovers exactly the original bytes and consumes the whole token
    let mut dec = Buf::<N>::new();
    let used = ref_read_name::<N>(out, &mut dec);
    assert!(used == Some(out.len()), "ISO name reader does not consume the written token");
    assert!(same_bytes(dec.as_slice(), &name[..]), "ISO name reader decodes a different name");
    kani::cover!(sink.n > 1 + N);
    kani::cover!(sink.n == 1 + N);
    std::mem::forget(r);
}
#[kani::proof]
#[kani::unwind(19)]
fn c01_name_1() {
    name_harness::<1, 4>();
}
#[kani::proof]
#[kani::unwind(19)]
fn c01_name_2() {
    name_harness::<2, 7>();
}
#[kani::proof]
#[kani::unwind(19)]
fn c01_name_3() {
    name_harness::<3, 10>();
}

// ---- strings ------------------------------------------------------------------------------------
/// 7.3.4.2 literal string reader. `s[0] == '('`. Returns consumed length, decoded bytes in `out`.
pub(crate) fn ref_read_literal<const M: usize>(s: &[u8], out: &mut Buf<M>) -> Option<usize> {
    if s.is_empty() || s[0] != b'(' {
        return None;
    }
    let mut depth: usize = 1;
    let mut i = 1;
    while i < s.len() {
        let c = s[i];
        if c == b'\\' {
            if i + 1 >= s.len() {
                return None;
            }
            let e = s[i + 1];
            i += 2;
            match e {
                b'n' => out.push(10),
                b'r' => out.push(13),
                b't' => out.push(9),
                b'b' => out.push(8),
                b'f' => out.push(12),
                b'(' => out.push(b'('),
                b')' => out.push(b')'),
                b'\\' => out.push(b'\\'),
                13 => {
                    // line continuation: backslash + EOL (CR, LF or CRLF) is ignored
                    if i < s.len() && s[i] == 10 {
                        i += 1;
                    }
                }
                10 => {}
                b'0'..=b'7' => {
                    let mut v: u32 = (e - b'0') as u32;
                    let mut k = 0;
                    while k < 2 && i < s.len() && s[i] >= b'0' && s[i] <= b'7' {
                        v = v * 8 + (s[i] - b'0') as u32;
                        i += 1;
                        k += 1;
                    }
                    out.push((v & 0xFF) as u8);
                }
                other => out.push(other), // "the REVERSE SOLIDUS shall be ignored"
            }
            continue;
        }
        i += 1;
        if c == b'(' {
            depth += 1;
            out.push(c);
        } else if c == b')' {
            depth -= 1;
            if depth == 0 {
                return Some(i);
            }
            out.push(c);
        } else if c == 13 {
            // an unescaped end-of-line marker (CR, LF, CRLF) is read as one LF
            if i < s.len() && s[i] == 10 {
                i += 1;
            }
            out.push(10);
        } else {
            out.push(c);
        }
    }
    None
}

fn litstr_harness<const N: usize, const K: usize>() {
    let text: [u8; N] = kani::any();
    let mut sink = ArrSink::<K>::new();
    let r = Writer::write_string(&mut sink, &text[..], &StringFormat::Literal);
    assert!(r.is_ok());
    let out = sink.out();
    let mut dec = Buf::<K>::new();
    let used = ref_read_literal::<K>(out, &mut dec);
    assert!(used == Some(out.len()), "ISO literal-string reader does not end exactly at the written ')'");
    assert!(same_bytes(dec.as_slice(), &text[..]), "ISO literal-string reader decodes different bytes");
    kani::cover!(sink.n == 2 + 2 * N);
    kani::cover!(sink.n == 2 + N);
    std::mem::forget(r);
}
#[kani::proof]
#[kani::unwind(6)]
#[kani::stub(<[usize]>::contains, slice_contains_model)]
fn c01_litstr_1() {
    litstr_harness::<1, 4>();
}
#[kani::proof]
#[kani::unwind(8)]
#[kani::stub(<[usize]>::contains, slice_contains_model)]
fn c01_litstr_2() {
    litstr_harness::<2, 6>();
}
#[kani::proof]
#[kani::unwind(10)]
#[kani::stub(<[usize]>::contains, slice_contains_model)]
fn c01_litstr_3() {
    litstr_harness::<3, 8>();
}
#[kani::proof]
#[kani::unwind(12)]
#[kani::stub(<[usize]>::contains, slice_contains_model)]
fn c01_litstr_4() {
    litstr_harness::<4, 10>();
}

fn hexstr_harness<const N: usize, const K: usize>() {
    let text: [u8; N] = kani::any();
    let mut sink = ArrSink::<K>::new();
    let r = Writer::write_string(&mut sink, &text[..], &StringFormat::Hexadecimal);
    assert!(r.is_ok());
    let out = sink.out();
    // 7.3.4.3: '<' pairs of hex digits '>'
    assert!(out.len() == 2 + 2 * N && out[0] == b'<' && out[out.len() - 1] == b'>', "hex string framing");
    let mut i = 0;
    while i < N {
        let h = hexval(out[1 + 2 * i]);
        let l = hexval(out[2 + 2 * i]);
        assert!(h.is_some() && l.is_some(), "non-hex character inside hex string");
        assert!(h.unwrap() * 16 + l.unwrap() == text[i], "hex string decodes to different bytes");
        i += 1;
    }
    kani::cover!(true);
    std::mem::forget(r);
}
#[kani::proof]
#[kani::unwind(6)]
fn c01_hexstr_2() {
    hexstr_harness::<2, 6>();
}

// ---- integers -----------------------------------------------------------------------------------
/// Decimal reader (7.3.3): optional sign, digits.
pub(crate) fn ref_read_int(s: &[u8]) -> Option<i128> {
    if s.is_empty() {
        return None;
    }
    let (neg, mut i) = if s[0] == b'-' { (true, 1) } else if s[0] == b'+' { (false, 1) } else { (false, 0) };
    if i >= s.len() {
        return None;
    }
    let mut v: i128 = 0;
    while i < s.len() {
        if s[i] < b'0' || s[i] > b'9' {
            return None;
        }
        v = v * 10 + (s[i] - b'0') as i128;
        i += 1;
    }
    Some(if neg { -v } else { v })
}

#[kani::proof]
#[kani::unwind(22)]
fn c01_int_i64() {
    let v: i64 = kani::any();
    let mut sink = ArrSink::<24>::new();
    let r = Writer::write_object(&mut sink, &Object::Integer(v));
    assert!(r.is_ok());
    assert!(ref_read_int(sink.out()) == Some(v as i128), "integer spelling does not read back as the same value");
    kani::cover!(sink.n == 20);
    std::mem::forget(r);
}
#[kani::proof]
#[kani::unwind(8)]
fn c01_int_i16() {
    let v: i16 = kani::any();
    let mut sink = ArrSink::<8>::new();
    let r = Writer::write_object(&mut sink, &Object::Integer(v as i64));
    assert!(r.is_ok());
    assert!(ref_read_int(sink.out()) == Some(v as i128), "integer spelling does not read back as the same value");
    kani::cover!(sink.n == 6);
    std::mem::forget(r);
}

// ---- cross-reference table entry ----------------------------------------------------------------
#[kani::proof]
#[kani::unwind(22)]
fn c03_xref_entry() {
    let offset: u32 = kani::any();
    let generation: u16 = kani::any();
    let e = XrefEntry::Normal { offset, generation };
    let mut sink = ArrSink::<24>::new();
    let r = e.write_xref_entry(&mut sink);
    assert!(r.is_ok());
    let o = sink.out();
    // 7.5.4: nnnnnnnnnn ggggg n eol, exactly 20 bytes, eol is a 2-character sequence
    assert!(o.len() == 20, "cross-reference entry is not exactly 20 bytes");
    assert!(o[10] == b' ' && o[16] == b' ' && o[17] == b'n');
    assert!((o[18] == b' ' && o[19] == b'\n') || (o[18] == b' ' && o[19] == b'\r') || (o[18] == b'\r' && o[19] == b'\n'));
    assert!(ref_read_int(&o[0..10]) == Some(offset as i128), "offset field does not read back");
    assert!(ref_read_int(&o[11..16]) == Some(generation as i128), "generation field does not read back");
    kani::cover!(offset > 999_999_999 && generation > 9999);
    std::mem::forget(r);
}

#[kani::proof]
#[kani::unwind(22)]
fn c03_xref_entry_free() {
    let k: u8 = kani::any();
    let e = match k % 3 {
        0 => XrefEntry::Free,
        1 => XrefEntry::UnusableFree,
        _ => XrefEntry::Compressed { container: kani::any(), index: kani::any() },
    };
    let mut sink = ArrSink::<24>::new();
    let r = e.write_xref_entry(&mut sink);
    assert!(r.is_ok());
    let o = sink.out();
    assert!(o.len() == 20 && o[17] == b'f' && o[10] == b' ' && o[16] == b' ', "free entry is not a 20-byte 'f' entry");
    kani::cover!(k % 3 == 2);
    std::mem::forget(r);
}

// ---- CountingWrite under an adversarial sink (C19) -----------------------------------------------
/// Sink = (budget, chunk, kind): accepts at most `chunk` bytes per call and `budget` bytes in total,
/// then fails hard (Err), with `Ok(0)`, or once with `Interrupted` (transient) before continuing.
pub(crate) struct FaultSink<const K: usize> {
    pub got: [u8; K],
    pub n: usize,
    pub budget: usize,
    pub chunk: usize,
    pub kind: u8,
    pub interrupted_left: u8,
    pub interrupt_at: usize,
}
impl<const K: usize> Write for FaultSink<K> {
    fn write(&mut self, b: &[u8]) -> Result<usize> {
        if self.interrupted_left > 0 && self.n >= self.interrupt_at {
            self.interrupted_left -= 1;
            return Err(std::io::Error::from(std::io::ErrorKind::Interrupted));
        }
        if self.budget == 0 {
            return if self.kind == 0 {
                Err(std::io::Error::from(std::io::ErrorKind::Other))
            } else {
                Ok(0)
            };
        }
        let mut m = b.len();
        if m > self.chunk {
            m = self.chunk;
        }
        if m > self.budget {
            m = self.budget;
        }
        let mut i = 0;
        while i < m {
            assert!(self.n < K, "harness sink too small (harness bug)");
            self.got[self.n] = b[i];
            self.n += 1;
            i += 1;
        }
        self.budget -= m;
        Ok(m)
    }
    fn flush(&mut self) -> Result<()> {
        Ok(())
    }
}

/// CountingWrite under a sink that accepts at most `chunk` bytes per call and `budget` bytes in
/// total and then fails (KIND 0: hard Err, KIND 1: Ok(0)); INTR = one transient `Interrupted` at
/// a symbolic offset.  Whenever all calls succeed, `bytes_written` equals the bytes the sink really
/// accepted (this is what cross-reference offsets are computed from) and the bytes do not depend
/// on the chunking; if the sink runs out, some call reports an error.
fn counting_write_harness<const KIND: u8, const INTR: u8>() {
    let budget: usize = any_in(0, 9);
    let chunk: usize = any_in(1, 3);
    let interrupt_at: usize = any_in(0, 6);
    let mut s = FaultSink::<12> { got: [0; 12], n: 0, budget, chunk, kind: KIND, interrupted_left: INTR, interrupt_at };
    let data: [u8; 4] = kani::any();
    let total = 4 + 3;
    let (r1, r2, bw);
    {
        let mut cw = CountingWrite { inner: &mut s, bytes_written: 0 };
        r1 = cw.write_all(&data);
        r2 = if r1.is_ok() { Write::write_all(&mut cw, b"abc") } else { Ok(()) };
        bw = cw.bytes_written;
    }
    let all_ok = r1.is_ok() && r2.is_ok();
    if all_ok {
        assert!(bw == s.n, "bytes_written differs from the bytes the sink accepted");
        assert!(s.n == total);
        assert!(s.got[0] == data[0] && s.got[3] == data[3] && s.got[4] == b'a' && s.got[6] == b'c', "bytes depend on chunking");
    } else {
        assert!(budget < total, "error reported although the sink had room for everything");
    }
    if budget < total {
        assert!(!all_ok, "sink failure was swallowed");
    }
    kani::cover!(all_ok && chunk == 1);
    kani::cover!(!all_ok);
    std::mem::forget((r1, r2));
}
#[kani::proof]
#[kani::unwind(8)]
fn c19_counting_write_hard_error() {
    counting_write_harness::<0, 0>();
}
#[kani::proof]
#[kani::unwind(8)]
fn c19_counting_write_zero_write() {
    counting_write_harness::<1, 0>();
}
#[kani::proof]
#[kani::unwind(8)]
fn c19_counting_write_interrupted() {
    counting_write_harness::<0, 1>();
}

/// `write` (not write_all): the count follows the bytes the sink reports as accepted.
#[kani::proof]
#[kani::unwind(6)]
fn c19_counting_write_partial() {
    let budget: usize = any_in(0, 5);
    let chunk: usize = any_in(1, 4);
    let mut s = FaultSink::<8> { got: [0; 8], n: 0, budget, chunk, kind: 1, interrupted_left: 0, interrupt_at: 0 };
    let data: [u8; 4] = kani::any();
    let (r, bw);
    {
        let mut cw = CountingWrite { inner: &mut s, bytes_written: 0 };
        r = Write::write(&mut cw, &data);
        bw = cw.bytes_written;
    }
    match &r {
        Ok(n) => assert!(*n == s.n && bw == s.n, "bytes_written differs from what the sink accepted"),
        Err(_) => panic!("this sink never fails hard"),
    }
    kani::cover!(s.n == 2);
    std::mem::forget(r);
}

/// Model of `<[usize]>::contains` (std's chunked/SIMD-friendly implementation is encoded very
/// expensively by CBMC: 1-byte literal string -> 22 GB); a plain linear scan has the same semantics.
fn slice_contains_model<T: PartialEq>(s: &[T], x: &T) -> bool {
    let mut i = 0;
    while i < s.len() {
        if s[i] == *x {
            return true;
        }
        i += 1;
    }
    false
}

// ---- cross-reference table: subsection splitting (7.5.4) -----------------------------------------
fn read_uint(s: &[u8], pos: &mut usize) -> Option<u32> {
    let mut v: u32 = 0;
    let mut n = 0;
    while *pos < s.len() && s[*pos] >= b'0' && s[*pos] <= b'9' {
        v = v * 10 + (s[*pos] - b'0') as u32;
        *pos += 1;
        n += 1;
    }
    if n == 0 {
        None
    } else {
        Some(v)
    }
}

/// Strict reader for a cross-reference table as 7.5.4 defines it: keyword line, then subsections
/// "first count" EOL followed by exactly `count` 20-byte entries.  Fills `seen[id]` with
/// 0 = not listed, 1 = in use (offset in `offs`), 2 = free.  Returns false on any syntax deviation.
fn ref_read_xref_table<const IDS: usize>(s: &[u8], seen: &mut [u8; IDS], offs: &mut [u32; IDS]) -> bool {
    let mut pos = 0;
    if s.len() < 5 || s[0] != b'x' || s[1] != b'r' || s[2] != b'e' || s[3] != b'f' || s[4] != b'\n' {
        return false;
    }
    pos += 5;
    let mut sections = 0;
    while pos < s.len() && sections < IDS {
        sections += 1;
        let first = match read_uint(s, &mut pos) {
            Some(v) => v,
            None => return false,
        };
        if pos >= s.len() || s[pos] != b' ' {
            return false;
        }
        pos += 1;
        let count = match read_uint(s, &mut pos) {
            Some(v) => v,
            None => return false,
        };
        if pos >= s.len() || s[pos] != b'\n' {
            return false;
        }
        pos += 1;
        if count == 0 {
            return false;
        }
        let mut k = 0;
        while k < count && (k as usize) < IDS {
            if pos + 20 > s.len() {
                return false;
            }
            let e = &s[pos..pos + 20];
            let mut p = 0;
            let off = match read_uint(e, &mut p) {
                Some(v) => v,
                None => return false,
            };
            if p != 10 || e[10] != b' ' || e[16] != b' ' || e[18] != b' ' || e[19] != b'\n' {
                return false;
            }
            let id = (first + k) as usize;
            if id >= IDS || seen[id] != 0 {
                return false; // out of range or listed twice
            }
            if e[17] == b'n' {
                seen[id] = 1;
                offs[id] = off;
            } else if e[17] == b'f' {
                seen[id] = 2;
            } else {
                return false;
            }
            pos += 20;
            k += 1;
        }
    }
    pos == s.len()
}

/// write_xref for one concrete subset (bit k of MASK = object k is in use) of ids 1..=MAXID:
/// a strict 7.5.4 reader finds object 0 free, exactly the in-use ids with their own offsets, and
/// no other in-use entry.  Offsets are symbolic only in their low digit (keeps `{:>010}` formatting cheap).
fn write_xref_case<const MAXID: usize, const IDS: usize, const K: usize>(mask: u32, lowdigit: u32) {
    let mut xref = Xref::new(MAXID as u32 + 1, XrefType::CrossReferenceTable);
    let mut id = 1;
    while id <= MAXID {
        if (mask >> id) & 1 == 1 {
            xref.insert(id as u32, XrefEntry::Normal { offset: 100 * id as u32 + lowdigit, generation: 0 });
        }
        id += 1;
    }
    let mut sink = ArrSink::<K>::new();
    let r = Writer::write_xref(&mut sink, &xref);
    assert!(r.is_ok());
    let mut seen = [0u8; IDS];
    let mut offs = [0u32; IDS];
    let ok = ref_read_xref_table::<IDS>(sink.out(), &mut seen, &mut offs);
    assert!(ok, "cross-reference table is not well-formed per ISO 32000-1 7.5.4");
    assert!(seen[0] == 2, "object 0 must be listed as free");
    let mut id = 1;
    while id <= MAXID {
        if (mask >> id) & 1 == 1 {
            assert!(seen[id] == 1 && offs[id] == 100 * id as u32 + lowdigit, "in-use object has no entry with its own offset");
        } else {
            assert!(seen[id] != 1, "entry marks a non-existent object as in use");
        }
        id += 1;
    }
    std::mem::forget(r);
    std::mem::forget(xref);
}
/// All 16 subsets of ids 1..=4 (every gap width 0..=3 before, between and after entries).
#[kani::proof]
#[kani::unwind(24)]
fn c03_write_xref_subsets4() {
    let lowdigit: u32 = kani::any();
    kani::assume(lowdigit <= 9);
    let mut m = 0u32;
    while m < 16 {
        write_xref_case::<4, 5, 140>(m << 1, lowdigit);
        m += 1;
    }
    kani::cover!(lowdigit == 9);
}
/// Selected subsets of ids 1..=6 with wide gaps.
#[kani::proof]
#[kani::unwind(24)]
fn c03_write_xref_gaps6() {
    let lowdigit: u32 = kani::any();
    kani::assume(lowdigit <= 9);
    write_xref_case::<6, 7, 200>(0b1000010, lowdigit); // {1, 6}
    write_xref_case::<6, 7, 200>(0b0100100, lowdigit); // {2, 5}
    write_xref_case::<6, 7, 200>(0b1000000, lowdigit); // {6}
    write_xref_case::<6, 7, 200>(0b1110010, lowdigit); // {1, 4, 5, 6}
    kani::cover!(lowdigit == 0);
}

/// create_xref_steam: W [1 4 2] rows and Index pairs for every subset of in-use objects among 1..=4
/// (the size passed by the caller is max_id + 1 and the stream's own id is max_id + 1 as well).
#[kani::proof]
#[kani::unwind(16)]
fn c03_xref_stream_rows() {
    let lowbyte: u32 = kani::any();
    kani::assume(lowbyte <= 255);
    let mut m = 0u32;
    while m < 16 {
        xref_stream_rows_case(m << 1, lowbyte);
        m += 1;
    }
    kani::cover!(lowbyte == 255);
}
fn xref_stream_rows_case(mask: u32, lowbyte: u32) {
    const MAXID: usize = 4;
    let mut present = [false; 6];
    let mut xref = Xref::new(MAXID as u32 + 1, XrefType::CrossReferenceStream);
    let mut id = 1;
    while id <= MAXID {
        present[id] = (mask >> id) & 1 == 1;
        if present[id] {
            xref.insert(id as u32, XrefEntry::Normal { offset: 1000 * id as u32 + lowbyte, generation: 0 });
        }
        id += 1;
    }
    // the stream object itself, as write_cross_reference_stream does
    xref.insert(MAXID as u32 + 1, XrefEntry::Normal { offset: 7777, generation: 0 });
    let r = Writer::create_xref_steam(&xref, XRefStreamFilter::None);
    match &r {
        Ok((bytes, len, index)) => {
            assert!(*len == bytes.len(), "declared Length differs from the stream bytes");
            assert!(bytes.len() % 7 == 0, "rows are not 7 bytes ([1 4 2])");
            let idx = match index {
                Object::Array(a) => a,
                _ => panic!("Index must be an array"),
            };
            assert!(idx.len() % 2 == 0);
            // walk Index pairs and rows together
            let mut row = 0usize;
            let mut listed = [false; 6];
            let mut p = 0;
            while p + 1 < idx.len() && p < 12 {
                let first = match &idx[p] {
                    Object::Integer(v) => *v,
                    _ => panic!("Index entries must be integers"),
                };
                let count = match &idx[p + 1] {
                    Object::Integer(v) => *v,
                    _ => panic!("Index entries must be integers"),
                };
                assert!(first >= 1 && count >= 1 && first + count <= 6, "Index pair out of range");
                let mut k = 0;
                while k < count && k < 6 {
                    let id = (first + k) as usize;
                    assert!(row * 7 + 7 <= bytes.len(), "Index announces more rows than the stream holds");
                    let b = &bytes[row * 7..row * 7 + 7];
                    let off = ((b[1] as u32) << 24) | ((b[2] as u32) << 16) | ((b[3] as u32) << 8) | b[4] as u32;
                    assert!(!listed[id], "object listed twice");
                    listed[id] = true;
                    assert!(b[0] == 1, "in-use row must have type 1");
                    if id <= MAXID {
                        assert!(present[id] && off == 1000 * id as u32 + lowbyte, "row does not carry the object's own offset");
                    } else {
                        assert!(off == 7777, "self entry of the cross-reference stream is wrong");
                    }
                    row += 1;
                    k += 1;
                }
                p += 2;
            }
            assert!(row * 7 == bytes.len(), "stream holds rows that Index does not announce");
            let mut id = 1;
            while id <= MAXID {
                assert!(listed[id] == present[id], "in-use object missing from the cross-reference stream");
                id += 1;
            }
            assert!(listed[MAXID + 1], "cross-reference stream does not list itself");
        }
        Err(_) => panic!("create_xref_steam failed"),
    }
    std::mem::forget(r);
    std::mem::forget(xref);
}

// ---- indirect object framing (7.3.10) and offset recording -----------------------------------------
/// `write_indirect_object` for a scalar object: exact framing "<id> <gen> obj\n <value> \nendobj\n"
/// (scalars need a separator on both sides), the xref entry records the offset at which the object
/// header starts (= bytes written before) and the generation.
#[kani::proof]
#[kani::unwind(14)]
fn c03_indirect_object_scalar() {
    let id: u32 = kani::any();
    let generation: u16 = kani::any();
    let pre: usize = kani::any();
    kani::assume(pre <= 1000);
    let which: u8 = kani::any();
    let bval: bool = kani::any();
    let obj = match which % 3 {
        0 => Object::Null,
        1 => Object::Boolean(bval),
        _ => Object::Integer(7),
    };
    let mut sink = ArrSink::<48>::new();
    let mut xref = Xref::new(0, XrefType::CrossReferenceTable);
    let r;
    let after;
    {
        let mut sref = &mut sink;
        let mut cw = CountingWrite { inner: &mut sref, bytes_written: pre };
        r = Writer::write_indirect_object(&mut cw, id, generation, &obj, &mut xref);
        after = cw.bytes_written;
    }
    assert!(r.is_ok());
    let out = sink.out();
    assert!(after == pre + out.len(), "bytes_written does not advance by the bytes produced");
    // header: decimal id, space, decimal generation, " obj\n"
    let mut pos = 0;
    let got_id = read_uint(out, &mut pos);
    assert!(got_id == Some(id) || id > 999_999_999, "object number does not read back");
    if id <= 999_999_999 {
        assert!(pos < out.len() && out[pos] == b' ');
        pos += 1;
        let got_gen = read_uint(out, &mut pos);
        assert!(got_gen == Some(generation as u32), "generation does not read back");
        assert!(pos + 5 <= out.len() && out[pos] == b' ' && out[pos + 1] == b'o' && out[pos + 2] == b'b' && out[pos + 3] == b'j' && out[pos + 4] == b'\n', "'obj' keyword framing");
        pos += 5;
        // scalar values are separated from the keyword line and from endobj
        assert!(pos < out.len() && out[pos] == b' ', "scalar object must be preceded by a separator");
        let n = out.len();
        assert!(n >= 9 && out[n - 1] == b'\n' && out[n - 2] == b'j' && out[n - 3] == b'b' && out[n - 4] == b'o' && out[n - 5] == b'd' && out[n - 6] == b'n' && out[n - 7] == b'e' && out[n - 8] == b'\n', "'endobj' framing");
        assert!(out[n - 9] == b' ', "scalar object must be followed by a separator");
    }
    match xref.get(id) {
        Some(XrefEntry::Normal { offset, generation: g }) => {
            assert!(*offset == pre as u32, "xref entry does not hold the offset of the object header");
            assert!(*g == generation, "xref entry does not hold the generation");
        }
        _ => panic!("write_indirect_object did not record an in-use entry"),
    }
    kani::cover!(which % 3 == 1 && id > 100000 && generation > 100);
    std::mem::forget(r);
    std::mem::forget(xref);
}

// ---- stream body framing under a chunking sink (C19 / C03) ----------------------------------------
/// `write_stream` to a sink that accepts at most 4 bytes per call (never fails): the dictionary,
/// the keyword `stream` followed by LF or CRLF (7.3.8.1), then EXACTLY the content bytes, then an
/// optional end-of-line and `endstream` - nothing lost or duplicated under short writes.
#[kani::proof]
#[kani::unwind(5)]
fn c19_write_stream_chunked() {
    let content: [u8; 5] = kani::any();
    let mut s = FaultSink::<48> { got: [0; 48], n: 0, budget: 1000, chunk: 4, kind: 0, interrupted_left: 0, interrupt_at: 0 };
    let stream = Stream { dict: Dictionary::new(), content: content.to_vec(), allows_compression: true, start_position: None };
    let r = Writer::write_stream(&mut s, &stream);
    assert!(r.is_ok());
    let o = &s.got;
    assert!(o[0] == b'<' && o[1] == b'<' && o[2] == b'>' && o[3] == b'>', "stream dictionary");
    assert!(o[4] == b's' && o[5] == b't' && o[6] == b'r' && o[7] == b'e' && o[8] == b'a' && o[9] == b'm', "'stream' keyword");
    let body = if o[10] == b'\n' {
        11
    } else {
        assert!(o[10] == b'\r' && o[11] == b'\n', "'stream' must be followed by LF or CRLF");
        12
    };
    assert!(o[body] == content[0] && o[body + 1] == content[1] && o[body + 2] == content[2] && o[body + 3] == content[3] && o[body + 4] == content[4], "stream body bytes differ under chunked writes");
    let mut p = body + 5;
    if o[p] == b'\r' {
        p += 1;
    }
    if o[p] == b'\n' {
        p += 1;
    }
    assert!(o[p] == b'e' && o[p + 1] == b'n' && o[p + 2] == b'd' && o[p + 3] == b's' && o[p + 8] == b'm', "'endstream' must follow the body (bytes lost or duplicated under short writes)");
    assert!(s.n == p + 9, "trailing bytes after 'endstream'");
    kani::cover!(true);
    std::mem::forget(r);
    std::mem::forget(stream);
}

// ---- token separators (7.2.2): need_separator / need_end_separator vs what write_object emits -----
/// Two adjacent tokens must be separated by white space unless one of the touching bytes is a
/// delimiter.  write_array / write_dictionary / write_indirect_object rely on need_separator(x)
/// ("x starts with a regular character") and need_end_separator(x) ("x ends with one").
fn separator_harness(obj: &Object) {
    let mut sink = ArrSink::<24>::new();
    let r = Writer::write_object(&mut sink, obj);
    assert!(r.is_ok());
    let out = sink.out();
    assert!(out.len() >= 1);
    if is_regular(out[0]) {
        assert!(Writer::need_separator(obj), "object starts with a regular character but need_separator says no: it would merge with a preceding name/number/keyword");
    }
    if is_regular(out[out.len() - 1]) {
        assert!(Writer::need_end_separator(obj), "object ends with a regular character but need_end_separator says no: it would merge with a following keyword");
    }
    std::mem::forget(r);
}
#[kani::proof]
#[kani::unwind(7)]
fn c01_separator_null() {
    let obj = Object::Null;
    separator_harness(&obj);
    kani::cover!(true);
}
#[kani::proof]
#[kani::unwind(7)]
fn c01_separator_bool() {
    let b: bool = kani::any();
    let obj = Object::Boolean(b);
    separator_harness(&obj);
    kani::cover!(b);
    kani::cover!(!b);
}
#[kani::proof]
#[kani::unwind(8)]
fn c01_separator_integer() {
    let i: i16 = kani::any();
    let obj = Object::Integer(i as i64);
    separator_harness(&obj);
    kani::cover!(i < 0);
}
#[kani::proof]
#[kani::unwind(8)]
fn c01_separator_reference() {
    let id: u8 = kani::any();
    let g: u8 = kani::any();
    let obj = Object::Reference((id as u32, g as u16));
    separator_harness(&obj);
    kani::cover!(id > 99);
}
#[kani::proof]
#[kani::unwind(20)]
fn c01_separator_name() {
    let n: u8 = kani::any();
    let obj = Object::Name(vec![n]);
    separator_harness(&obj);
    kani::cover!(n == b'A');
    std::mem::forget(obj);
}
#[kani::proof]
#[kani::unwind(19)]
fn c01_name_4() {
    name_harness::<4, 13>();
}

// ---- binary mark line (7.5.2: comment with four bytes >= 128) -------------------------------------
#[kani::proof]
#[kani::unwind(7)]
fn c03_binary_mark() {
    let mark: [u8; 4] = kani::any();
    let mut sink = ArrSink::<8>::new();
    let r = Writer::write_binary_mark(&mut sink, &mark);
    let all_high = mark[0] >= 128 && mark[1] >= 128 && mark[2] >= 128 && mark[3] >= 128;
    if all_high {
        assert!(r.is_ok());
        let o = sink.out();
        assert!(o.len() == 6 && o[0] == b'%' && o[1] == mark[0] && o[4] == mark[3] && o[5] == b'\n', "binary comment line malformed");
    } else if r.is_ok() {
        // (lopdf rejects such a mark; if a future version writes a line anyway it must still be a
        // comment line of bytes >= 128, 7.5.2)
        let o = sink.out();
        assert!(o.len() >= 2 && o[0] == b'%' && o[o.len() - 1] == b'\n');
        let mut i = 1;
        while i + 1 < o.len() {
            assert!(o[i] >= 128, "binary comment must consist of bytes >= 128");
            i += 1;
        }
    }
    kani::cover!(all_high);
    kani::cover!(!all_high);
    std::mem::forget(r);
}
#[kani::proof]
#[kani::unwind(7)]
fn c01_hexstr_4() {
    hexstr_harness::<4, 10>();
}

/// XrefSection::write_xref_section: header "first count" + EOL, then `count` 20-byte entries.
#[kani::proof]
#[kani::unwind(22)]
fn c03_xref_section_header() {
    let first: u16 = kani::any();
    let two: bool = kani::any();
    let mut sec = XrefSection::new(first as u32);
    sec.add_entry(XrefEntry::Normal { offset: 17, generation: 0 });
    sec.add_entry(XrefEntry::Free);
    if !two {
        // concrete shapes only: a second harness path would make the Vec shape symbolic
    }
    let mut sink = ArrSink::<64>::new();
    let r = sec.write_xref_section(&mut sink);
    assert!(r.is_ok());
    let o = sink.out();
    let mut pos = 0;
    let f = read_uint(o, &mut pos);
    assert!(f == Some(first as u32), "subsection header does not start with the first object number");
    assert!(pos < o.len() && o[pos] == b' ');
    while pos < o.len() && o[pos] == b' ' {
        pos += 1;
    }
    let c = read_uint(o, &mut pos);
    assert!(c == Some(2), "subsection header does not give the number of entries");
    // end-of-line marker: CR, LF or CRLF, optionally preceded by a space
    if pos < o.len() && o[pos] == b' ' {
        pos += 1;
    }
    assert!(pos < o.len() && (o[pos] == b'\n' || o[pos] == b'\r'), "subsection header must end with an end-of-line marker");
    if o[pos] == b'\r' && pos + 1 < o.len() && o[pos + 1] == b'\n' {
        pos += 1;
    }
    pos += 1;
    assert!(o.len() == pos + 40, "subsection must consist of the header line and count 20-byte entries");
    assert!(o[pos + 17] == b'n' && o[pos + 37] == b'f');
    kani::cover!(first > 9999);
    std::mem::forget(r);
    std::mem::forget(sec);
}

// one concrete subset per harness (small unwind): the looped variants above do not reach a verdict
macro_rules! write_xref_one {
    ($name:ident, $mask:expr) => {
        #[kani::proof]
        #[kani::unwind(12)]
        fn $name() {
            let lowdigit: u32 = kani::any();
            kani::assume(lowdigit <= 9);
            write_xref_case::<4, 5, 140>($mask, lowdigit);
            kani::cover!(lowdigit == 9);
        }
    };
}
write_xref_one!(c03_write_xref_ids_1_4, 0b10010);
write_xref_one!(c03_write_xref_ids_2, 0b00100);
write_xref_one!(c03_write_xref_ids_1_2_3, 0b01110);
write_xref_one!(c03_write_xref_ids_4, 0b10000);

// ---- arrays: separators between adjacent elements (7.3.6), elements on the stack (concrete kinds) --
/// Scans one token of a written array element sequence: returns the end of a regular-character run.
fn regular_run_end(s: &[u8], mut pos: usize) -> usize {
    while pos < s.len() && is_regular(s[pos]) {
        pos += 1;
    }
    pos
}

/// `[i j]` for all pairs of i8 integers: two integer tokens, separated, read back by a decimal reader.
#[kani::proof]
#[kani::unwind(8)]
fn c01_array_int_int() {
    let i: i8 = kani::any();
    let j: i8 = kani::any();
    let arr = [Object::Integer(i as i64), Object::Integer(j as i64)];
    let mut sink = ArrSink::<16>::new();
    let r = Writer::write_array(&mut sink, &arr);
    assert!(r.is_ok());
    let o = sink.out();
    assert!(o.len() >= 5 && o[0] == b'[' && o[o.len() - 1] == b']', "array brackets");
    let e1 = regular_run_end(o, 1);
    assert!(ref_read_int(&o[1..e1]) == Some(i as i128), "first element does not read back (merged with its neighbour?)");
    assert!(e1 < o.len() && is_ws(o[e1]), "two numbers must be separated by white space");
    let e2 = regular_run_end(o, e1 + 1);
    assert!(ref_read_int(&o[e1 + 1..e2]) == Some(j as i128), "second element does not read back");
    assert!(e2 == o.len() - 1, "trailing bytes inside the array");
    kani::cover!(i < 0 && j < 0);
    std::mem::forget(r);
}

/// `[/n X]` for a concrete kind X: a name followed by a keyword or number must not merge with it.
fn array_name_then(second: Object, expect: &[u8]) {
    let n: u8 = kani::any();
    kani::assume(n >= 33 && n <= 126 && is_regular(n) && n != b'#');
    let arr = [Object::Name(vec![n]), second];
    let mut sink = ArrSink::<16>::new();
    let r = Writer::write_array(&mut sink, &arr);
    assert!(r.is_ok());
    let o = sink.out();
    assert!(o.len() >= 6 && o[0] == b'[' && o[1] == b'/' && o[2] == n, "name element");
    let p = skip_ws(o, 3).expect("a name followed by a keyword/number must be separated from it by white space");
    let e = expect_token(o, p, expect);
    assert!(e == o.len() - 1 && o[e] == b']');
    kani::cover!(n == b'A');
    std::mem::forget(r);
    std::mem::forget(arr);
}
#[kani::proof]
#[kani::unwind(19)]
fn c01_array_name_then_null() {
    array_name_then(Object::Null, b"null");
}
#[kani::proof]
#[kani::unwind(19)]
fn c01_array_name_then_true() {
    array_name_then(Object::Boolean(true), b"true");
}
#[kani::proof]
#[kani::unwind(19)]
fn c01_array_name_then_int() {
    array_name_then(Object::Integer(7), b"7");
}

/// Skips a (non-empty) run of white space; returns None if there is none.
fn skip_ws(s: &[u8], mut pos: usize) -> Option<usize> {
    let start = pos;
    while pos < s.len() && is_ws(s[pos]) {
        pos += 1;
    }
    if pos == start {
        None
    } else {
        Some(pos)
    }
}
/// Expects the regular-character token `tok` at `pos`, followed by a non-regular byte.
fn expect_token(s: &[u8], pos: usize, tok: &[u8]) -> usize {
    let e = regular_run_end(s, pos);
    assert!(e - pos == tok.len(), "token merged with its neighbour or misspelled");
    let mut i = 0;
    while i < tok.len() {
        assert!(s[pos + i] == tok[i], "token misspelled");
        i += 1;
    }
    e
}
/// Keyword/number pairs: `[true N]`, `[null null]`, `[3 0 R N]` keep their tokens apart (any amount
/// of white space between tokens is accepted; merged tokens are not).
#[kani::proof]
#[kani::unwind(8)]
fn c01_array_scalar_pairs() {
    let i: u8 = kani::any();
    kani::assume(i <= 9);
    let d = [b'0' + i];
    let mut s1 = ArrSink::<24>::new();
    let mut s2 = ArrSink::<24>::new();
    let mut s3 = ArrSink::<24>::new();
    assert!(Writer::write_array(&mut s1, &[Object::Boolean(true), Object::Integer(i as i64)]).is_ok());
    assert!(Writer::write_array(&mut s2, &[Object::Null, Object::Null]).is_ok());
    assert!(Writer::write_array(&mut s3, &[Object::Reference((3, 0)), Object::Integer(i as i64)]).is_ok());
    let o = s1.out();
    assert!(o[0] == b'[');
    let p = expect_token(o, 1, b"true");
    let p = skip_ws(o, p).expect("white space required between 'true' and a number");
    let p = expect_token(o, p, &d);
    assert!(o[p] == b']' && p + 1 == o.len());
    let o = s2.out();
    let p = expect_token(o, 1, b"null");
    let p = skip_ws(o, p).expect("white space required between two keywords");
    let p = expect_token(o, p, b"null");
    assert!(o[p] == b']' && p + 1 == o.len());
    let o = s3.out();
    let p = expect_token(o, 1, b"3");
    let p = skip_ws(o, p).expect("white space inside a reference");
    let p = expect_token(o, p, b"0");
    let p = skip_ws(o, p).expect("white space inside a reference");
    let p = expect_token(o, p, b"R");
    let p = skip_ws(o, p).expect("white space required between a reference and a number");
    let p = expect_token(o, p, &d);
    assert!(o[p] == b']' && p + 1 == o.len());
    kani::cover!(i == 9);
}

/// Keywords and references: exact spellings (7.3.2, 7.3.9, 7.3.10).
#[kani::proof]
#[kani::unwind(8)]
fn c01_keywords_and_reference() {
    let id: u16 = kani::any();
    let g: u8 = kani::any();
    let b: bool = kani::any();
    let mut s1 = ArrSink::<8>::new();
    let mut s2 = ArrSink::<8>::new();
    let mut s3 = ArrSink::<16>::new();
    assert!(Writer::write_object(&mut s1, &Object::Null).is_ok());
    assert!(Writer::write_object(&mut s2, &Object::Boolean(b)).is_ok());
    assert!(Writer::write_object(&mut s3, &Object::Reference((id as u32, g as u16))).is_ok());
    assert!(s1.n == 4 && s1.b[0] == b'n' && s1.b[1] == b'u' && s1.b[2] == b'l' && s1.b[3] == b'l');
    if b {
        assert!(s2.n == 4 && s2.b[0] == b't' && s2.b[1] == b'r' && s2.b[2] == b'u' && s2.b[3] == b'e');
    } else {
        assert!(s2.n == 5 && s2.b[0] == b'f' && s2.b[4] == b'e');
    }
    let o = s3.out();
    let mut pos = 0;
    assert!(read_uint(o, &mut pos) == Some(id as u32), "reference object number");
    pos = skip_ws(o, pos).expect("white space inside a reference");
    assert!(read_uint(o, &mut pos) == Some(g as u32), "reference generation");
    pos = skip_ws(o, pos).expect("white space inside a reference");
    assert!(pos + 1 == o.len() && o[pos] == b'R', "reference keyword");
    kani::cover!(id > 9999 && g > 99);
}

/// Strings next to other tokens: `[(s) 5]` and `[<hh> /N]` (delimiters need no separator, the
/// following token must still start right after the closing delimiter or a space).
#[kani::proof]
#[kani::unwind(19)]
#[kani::stub(<[usize]>::contains, slice_contains_model)]
fn c01_array_string_pairs() {
    let c: u8 = kani::any();
    kani::assume(c != b'(' && c != b')' && c != b'\\' && c != b'\r');
    let mut s1 = ArrSink::<16>::new();
    let mut s2 = ArrSink::<16>::new();
    assert!(Writer::write_array(&mut s1, &[Object::String(vec![c], StringFormat::Literal), Object::Integer(5)]).is_ok());
    assert!(Writer::write_array(&mut s2, &[Object::String(vec![c], StringFormat::Hexadecimal), Object::Name(vec![b'N'])]).is_ok());
    let o1 = s1.out();
    assert!(o1.len() >= 6 && o1[0] == b'[' && o1[1] == b'(' && o1[2] == c && o1[3] == b')', "literal string element");
    let p = if is_ws(o1[4]) { 5 } else { 4 };
    assert!(o1[p] == b'5' && o1[p + 1] == b']' && o1.len() == p + 2, "number after a string");
    let o2 = s2.out();
    assert!(o2.len() >= 8 && o2[0] == b'[' && o2[1] == b'<' && o2[4] == b'>', "hex string element");
    let q = if is_ws(o2[5]) { 6 } else { 5 };
    assert!(o2[q] == b'/' && o2[q + 1] == b'N' && o2[q + 2] == b']' && o2.len() == q + 3, "name after a hex string");
    kani::cover!(c == b'A');
}
