//! C06 harnesses for src/encryption/algorithms.rs: ISO 32000-1 Algorithm 2 (file encryption key,
//! revisions 2-4), built with the recording md-5 model: the harness compares the exact byte string
//! lopdf feeds to MD5, the number of MD5 computations and the truncations with what Algorithm 2
//! prescribes.
use super::*;
use crate::{Object, StringFormat};
use md5::verif;

fn fixed_random_state() -> std::hash::RandomState {
    verif_support::fixed_random_state()
}

const ISO_PAD: [u8; 32] = [
    0x28, 0xBF, 0x4E, 0x5E, 0x4E, 0x75, 0x8A, 0x41, 0x64, 0x00, 0x4E, 0x56, 0xFF, 0xFA, 0x01, 0x08, 0x2E, 0x2E, 0x00, 0xB6, 0xD0, 0x68,
    0x3E, 0x80, 0x2F, 0x0C, 0xA9, 0xFE, 0x64, 0x53, 0x69, 0x7A,
];

/// REV = revision (2,3,4), N = key length in bytes, L = password length.
fn alg2_harness<const REV: i64, const N: usize, const L: usize>() {
    let pw: [u8; L] = kani::any();
    let o: [u8; 32] = kani::any();
    let id: [u8; 8] = kani::any();
    let pbits: u64 = kani::any();
    let encrypt_metadata: bool = kani::any();
    let alg = PasswordAlgorithm {
        encrypt_metadata,
        length: Some(N * 8),
        version: if REV == 2 { 1 } else if REV == 3 { 2 } else { 4 },
        revision: REV,
        owner_value: o.to_vec(),
        owner_encrypted: Vec::new(),
        user_value: Vec::new(),
        user_encrypted: Vec::new(),
        permissions: Permissions::from_bits_truncate(pbits),
        permission_encrypted: Vec::new(),
    };
    let mut doc = Document::new();
    doc.trailer.set("ID", Object::Array(vec![Object::String(id.to_vec(), StringFormat::Hexadecimal), Object::String(vec![9, 9], StringFormat::Hexadecimal)]));
    verif::reset();
    let r = alg.compute_file_encryption_key_r4(&doc, &pw[..]);
    // ---- message prescribed by Algorithm 2 steps a-f
    let mut m = [0u8; 96];
    let mut n = 0;
    let plen = if L < 32 { L } else { 32 };
    while n < plen {
        m[n] = pw[n];
        n += 1;
    }
    let mut k = 0;
    while n < 32 {
        m[n] = ISO_PAD[k];
        n += 1;
        k += 1;
    }
    let mut k = 0;
    while k < 32 {
        m[n] = o[k];
        n += 1;
        k += 1;
    }
    let p32 = alg.permissions.p_value() as u32;
    m[n] = p32 as u8;
    m[n + 1] = (p32 >> 8) as u8;
    m[n + 2] = (p32 >> 16) as u8;
    m[n + 3] = (p32 >> 24) as u8;
    n += 4;
    let mut k = 0;
    while k < 8 {
        m[n] = id[k];
        n += 1;
        k += 1;
    }
    if REV >= 4 && !encrypt_metadata {
        m[n] = 0xFF;
        m[n + 1] = 0xFF;
        m[n + 2] = 0xFF;
        m[n + 3] = 0xFF;
        n += 4;
    }
    let rounds = if REV >= 3 { 50 } else { 0 };
    assert!(verif::count() == 1 + rounds, "Algorithm 2: wrong number of MD5 computations (1 + 50 for revision >= 3)");
    assert!(verif::msg_len(0) == n, "Algorithm 2 step a-f: MD5 input has the wrong length");
    let mut i = 0;
    while i < 96 {
        if i < n {
            assert!(verif::msg_byte(0, i) == m[i], "Algorithm 2 step a-f: MD5 input differs from the standard");
        }
        i += 1;
    }
    let keylen = if REV >= 3 { N } else { 5 };
    let mut d = verif::model_digest(&m, n);
    if REV >= 3 {
        // step g: 50 times MD5 of the first n bytes of the previous digest
        assert!(verif::msg_len(1) == keylen, "Algorithm 2 step g: each of the 50 rounds hashes the first n bytes of the previous digest");
        let mut i = 0;
        while i < 16 {
            if i < keylen {
                assert!(verif::msg_byte(1, i) == d[i], "Algorithm 2 step g: round input is not the previous digest");
            }
            i += 1;
        }
        let mut round = 0;
        while round < 50 {
            d = verif::model_digest(&d, keylen);
            round += 1;
        }
    }
    match &r {
        Ok(key) => {
            assert!(key.len() == keylen, "file encryption key has the wrong length");
            let mut i = 0;
            while i < 16 {
                if i < keylen {
                    assert!(key[i] == d[i], "file encryption key is not the leading bytes of the final digest");
                }
                i += 1;
            }
        }
        Err(_) => panic!("compute_file_encryption_key_r4 failed"),
    }
    kani::cover!(encrypt_metadata);
    kani::cover!(!encrypt_metadata);
    std::mem::forget(r);
    std::mem::forget(doc);
    std::mem::forget(alg);
}

#[kani::proof]
#[kani::unwind(98)]
#[kani::stub(std::hash::RandomState::new, fixed_random_state)]
#[kani::stub(std::string::String::from_utf8_lossy, crate::object::verif_kani::lossy_stub)]
fn c06_alg2_r2_pw5() {
    alg2_harness::<2, 5, 5>();
}
#[kani::proof]
#[kani::unwind(98)]
#[kani::stub(std::hash::RandomState::new, fixed_random_state)]
#[kani::stub(std::string::String::from_utf8_lossy, crate::object::verif_kani::lossy_stub)]
fn c06_alg2_r3_key40_pw0() {
    alg2_harness::<3, 5, 0>();
}
#[kani::proof]
#[kani::unwind(98)]
#[kani::stub(std::hash::RandomState::new, fixed_random_state)]
#[kani::stub(std::string::String::from_utf8_lossy, crate::object::verif_kani::lossy_stub)]
fn c06_alg2_r3_key128_pw33() {
    alg2_harness::<3, 16, 33>();
}
#[kani::proof]
#[kani::unwind(98)]
#[kani::stub(std::hash::RandomState::new, fixed_random_state)]
#[kani::stub(std::string::String::from_utf8_lossy, crate::object::verif_kani::lossy_stub)]
fn c06_alg2_r4_key128_pw5() {
    alg2_harness::<4, 16, 5>();
}
#[kani::proof]
#[kani::unwind(98)]
#[kani::stub(std::hash::RandomState::new, fixed_random_state)]
#[kani::stub(std::string::String::from_utf8_lossy, crate::object::verif_kani::lossy_stub)]
fn c06_alg2_r2_pw0() {
    alg2_harness::<2, 5, 0>();
}
#[kani::proof]
#[kani::unwind(98)]
#[kani::stub(std::hash::RandomState::new, fixed_random_state)]
#[kani::stub(std::string::String::from_utf8_lossy, crate::object::verif_kani::lossy_stub)]
fn c06_alg2_r2_pw33() {
    alg2_harness::<2, 5, 33>();
}
