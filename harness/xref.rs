//! C02 / C07 harnesses for src/xref.rs.
use super::*;

fn mk(present: bool, off: u32) -> Option<XrefEntry> {
    if present {
        Some(XrefEntry::Normal { offset: off, generation: 0 })
    } else {
        None
    }
}

/// Xref::merge(older): for every id the newer table's entry wins; ids only the older table has are
/// added (ISO 32000-1 7.5.6: the most recent cross-reference section takes precedence).
#[kani::proof]
#[kani::unwind(8)]
fn c07_xref_merge_newest_wins() {
    let mut newer = Xref::new(4, XrefType::CrossReferenceTable);
    let mut older = Xref::new(4, XrefType::CrossReferenceTable);
    let pn: [bool; 3] = kani::any();
    let po: [bool; 3] = kani::any();
    let on: [u32; 3] = kani::any();
    let oo: [u32; 3] = kani::any();
    let free_newer: bool = kani::any();
    let mut id = 0;
    while id < 3 {
        if let Some(e) = mk(pn[id], on[id]) {
            newer.insert(id as u32 + 1, e);
        }
        if let Some(e) = mk(po[id], oo[id]) {
            older.insert(id as u32 + 1, e);
        }
        id += 1;
    }
    if free_newer {
        // the newer revision explicitly lists object 1 (e.g. as compressed): still wins
        newer.insert(1, XrefEntry::Compressed { container: 9, index: 1 });
    }
    newer.merge(older);
    let mut id = 0;
    while id < 3 {
        let got = newer.get(id as u32 + 1);
        if id == 0 && free_newer {
            assert!(matches!(got, Some(XrefEntry::Compressed { container: 9, index: 1 })), "newer entry replaced by older one");
        } else if pn[id] {
            assert!(matches!(got, Some(XrefEntry::Normal { offset, .. }) if *offset == on[id]), "newer entry replaced by older one");
        } else if po[id] {
            assert!(matches!(got, Some(XrefEntry::Normal { offset, .. }) if *offset == oo[id]), "entry only present in the older table was not added");
        } else {
            assert!(got.is_none(), "entry invented by merge");
        }
        id += 1;
    }
    kani::cover!(pn[0] && po[0] && !pn[1] && po[1]);
    std::mem::forget(newer);
}

#[kani::proof]
#[kani::unwind(8)]
fn c02_xref_max_id() {
    let p: [bool; 4] = kani::any();
    let mut x = Xref::new(0, XrefType::CrossReferenceTable);
    let ids = [3u32, 7, 2, 5];
    let mut i = 0;
    let mut m = 0u32;
    while i < 4 {
        if p[i] {
            x.insert(ids[i], XrefEntry::Free);
            if ids[i] > m {
                m = ids[i];
            }
        }
        i += 1;
    }
    assert!(x.max_id() == m);
    kani::cover!(p[1] && p[3]);
    std::mem::forget(x);
}
