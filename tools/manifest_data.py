TECHNIQUE = ("bounded model checking of the real Rust code with Kani/CBMC (SAT back end CaDiCaL) against in-harness reference "
             "models; unwinding assertions on; every counterexample replayed natively before it is reported")

HOOKS = {
    "guard": "kani",
    "enable": ("no hook is committed to /repo: every check copies /repo's working tree to a scratch directory, appends "
               "`#[cfg(kani)] #[path=\"<scratch>/verif_harness/<m>.rs\"] pub(crate) mod verif_kani;` to the anchored source files there "
               "and patches model crates into the scratch Cargo.toml; cfg(kani) is set only by kani-compiler"),
    "baseline_off_cmd": "cd /repo && cargo test --workspace --no-fail-fast --offline",
    "source_commits": [],
    "add_only": True,
}

NOTES = ("All claims are bounded: 'holds for every value of the symbolic inputs inside the per-harness bound listed in the "
         "evidence; nothing is said outside it'. exit 2 = inconclusive (timeout / memory cap / unwinding assertion / vacuity / "
         "non-reproducing counterexample), never success. Most of lopdf is OUT of reach of this technique on this machine "
         "(measured, DESIGN.md section 5): the claims below are about small kernels only and say so.")

COMMON_NOTE = ("Trusted base: Kani 0.68 / CBMC 6.11 translation of the compiled code; model crates indexmap (association list), "
               "flate2/weezl (tagged transparent codecs), log (no-op macros); std stubs listed per harness in the evidence. "
               "lopdf's nom-based parser is never part of a query: 'reads back' means 'is read back by an ISO 32000 reference "
               "reader written in the harness'. ")

CLAIMS = {
    "C01": {
        "text": "Writer half only, token kernels: for ALL names of 1-3 bytes (4 in the thorough tier), ALL literal strings of 1-2 bytes, ALL 2- and 4-byte hex strings and ALL i16 integers the bytes lopdf writes are decoded by an ISO 32000-1 (7.3.3-7.3.5) reference reader to exactly the original value; need_separator/need_end_separator agree with the first/last byte write_object emits for null, booleans, ALL i16 integers, references and every 1-byte name; write_array keeps adjacent elements apart ([i j] for ALL i8 pairs read back; [/n null], [/n true], [/n 7] for every regular 1-byte name; [true N], [null null], [3 0 R N], [(c) 5], [<hh> /N]); null/true/false and 'id gen R' spellings for ALL u16 ids x u8 generations; free/compressed xref-table entries are 20-byte 'f' entries (in-use entries for ALL u32 offsets x u16 generations in the thorough tier); a subsection is 'first count' EOL + count x 20 bytes for ANY u16 first id; the binary-mark line is '%' + 4 bytes >= 128 + LF or an error; the [1 4 2] cross-reference-stream row packing is inverted by the reader's own big-endian field decoder for ALL (u8,u32,u16).",
        "design_ref": "DESIGN.md section 4 C01",
        "note": COMMON_NOTE + "NOT decided: Document::save_to/load_mem as a whole, nesting, separators between array/dictionary elements, reals, strings/names longer than 2 bytes, the reader (parser) side, both feature configurations. A regression there is not detected.",
    },
    "C03": {
        "text": "Kernels of the strict-validity claim: the C01 token kernels (a strict reader's lexical level) incl. token separators, 20-byte entries, subsection header + count x 20 bytes, binary-mark line, [1 4 2] row packing, CountingWrite's byte accounting (what every xref offset is computed from) under every chunking / short-write / failing sink within the bound, and write_stream's exact framing ('stream' EOL, Length bytes, EOL 'endstream') under short writes.",
        "design_ref": "DESIGN.md section 4 C03",
        "note": COMMON_NOTE + "NOT decided: whole-file structure (header, startxref, subsection splitting in write_xref, Index/W/Length consistency in create_xref_steam, incremental save) - the harnesses for these did not reach a verdict inside the caps and are not part of the claim.",
    },
    "C04": {
        "text": "No-panic (overflow checks on) for the decoders that could be encoded: Stream::decode_ascii85 on ALL inputs of 4, 5 and 6 bytes, decode_text_string on ALL raw strings of 3 and 4 bytes (5 thorough), PNG decode_row for all rows <= 4 bytes x bpp 1..3, decompress_predictor for ANY i64 Columns/Colors/BitsPerComponent, and the absence of lone-surrogate cells in all five one-byte tables (bytes_to_string's expect).",
        "design_ref": "DESIGN.md section 4 C04",
        "note": COMMON_NOTE + "NOT decided: every entry point that goes through the nom parser (load_mem, Content::decode, CMap parsing, ObjectStream::new), decode_xref_stream, ToUnicode lookup, allocation-size and termination bounds. The property is therefore decided for a fraction of its entry points only.",
    },
    "C05": {
        "text": "Primitive-level round trips: PKCS#5 pad/unpad for ALL 16-byte blocks and pad positions (and rejection of every malformed padding), RC4 encrypt/decrypt inverse and published keystream for key 'Key' on ALL 8-byte plaintexts, identity crypt filter; encrypt_object/decrypt_object leave ALL integer and reference objects untouched.",
        "design_ref": "DESIGN.md section 4 C05",
        "note": COMMON_NOTE + "NOT decided: Document::encrypt/decrypt, encrypt_object/decrypt_object on strings, streams and containers (object walking, Crypt overrides, Metadata/XRef exemptions: > 12 GB), AES filters (the aes crate triggers a kani-compiler internal error: intrinsics.rs:243), password authentication, save/reload. The claim covers the RC4/PKCS#5/identity primitives only.",
    },
    "C06": {
        "text": "Agreement with the standard for the pieces that could be encoded: Algorithm 1 (per-object keys, RC4 40/128-bit and AESV2) - the exact byte string fed to MD5 and the truncation, for ALL file keys, object numbers and generations; Algorithm 1.A (AESV3: 32-byte key used as is, no MD5); Algorithm 2 for revision 2 (MD5 input layout: padded password, O, P little-endian, file id; single digest; 5-byte key) for ALL passwords of length 0, 5 and 33 (padding and truncation to 32 bytes), O entries, permission words and file ids; Permissions::p_value vs Table 22 for ALL 2^64 bit patterns; RC4 vs the published test vector on ALL 8-byte plaintexts and vs an independent reference RC4 across the 255-byte index wrap-around (262-byte stream) (two more keys in the thorough tier); PKCS#5 padding for ALL blocks.",
        "design_ref": "DESIGN.md section 4 C06",
        "note": COMMON_NOTE + "MD5 itself is replaced by a recording model (the message construction is what lopdf owns). NOT decided: Algorithm 2 for revisions 3-4 (the 50-round harnesses exceed the memory cap), Algorithms 2.A/2.B and 3-13, R5/R6, AES ciphertexts, interoperability on whole files.",
    },
    "C09": {
        "text": "PNG predictors vs the PNG text (Paeth for all 2^24 triples, every filter type on all rows <= 4 bytes x bpp 1..3), ASCII85 vs an ISO 7.4.3 reference on all bodies of 1-2 bytes + '~>' (3 bytes in the thorough tier), the LZW stage honouring /EarlyChange (integer 0 = late, 1 or absent = early; decoder variant made observable by the tagged stub), Flate/LZW stages without parameters passing the codec output through, DecodeParms -> (bytes-per-pixel, columns) plumbing for Predictor 0..20 / Columns <= 10^6 / Colors <= 32 / Bits 8|16 with each key present or null, Length bookkeeping of Stream::new/set_content, and compress(): never longer, Length consistent, Filter set iff replaced, already-filtered streams untouched (encoder stub with arbitrary output length).",
        "design_ref": "DESIGN.md section 4 C09",
        "note": COMMON_NOTE + "Flate and LZW bit-level decoding are third-party and replaced by stubs. NOT decided: filter chains and DecodeParms given as an array (harnesses did not reach a verdict; by reading, the array form is ignored by decompressed_content - recorded in DESIGN.md section 6 as undecided), set_plain_content/decompress bookkeeping, multi-row decode_frame, Bits < 8.",
    },
    "C14": {
        "text": "Encode half: Content::encode separates operand-less operations by exactly one newline (no trailing bytes); the writer functions it uses for operands (write_name 1-3 bytes, write_string literal 1-2 bytes / hex 2-4 bytes, integers, keywords, references, arrays of two scalars) produce tokens an ISO reference reader decodes to the original operand, and the separator predicates keep adjacent tokens apart.",
        "design_ref": "DESIGN.md section 4 C14",
        "note": COMMON_NOTE + "NOT decided: Content::encode with operands in place (operand vectors live on the heap: no verdict), Content::decode (nom), inline images. Shares its harnesses with C01.",
    },
    "C16": {
        "text": "Text strings and tables: text_string() for EVERY one-character text up to U+07FF is either the single PDFDocEncoding byte - only when that byte decodes back to the same character, always for printable ASCII - or BOM + UTF-16BE; decode_text_string() returns the character for FE FF + EVERY non-surrogate unit, an astral character for EVERY surrogate pair, exactly one character for every PDFDocEncoding byte text_string() can emit, and the text without the mark for UTF-8-with-BOM strings (every U+0080..U+07FF); it returns a value or an error on ALL raw strings of 3-4 bytes; literal strings of 1-2 bytes (what a text-showing operand or Info entry is saved as) are recovered by an ISO reader; encode_utf16_be for EVERY scalar value and encode_utf8 for every U+0080..U+07FF; all five one-byte tables free of surrogate cells; printable-ASCII and Latin-1 portions agree with the Annex D rules.",
        "design_ref": "DESIGN.md section 4 C16",
        "note": COMMON_NOTE + "The round trip is decided as two halves on one-character strings (encode half and decode half on concrete-length byte strings), not on arbitrary strings. NOT decided: multi-character strings, re-encoding stability of the one-byte tables (string_to_bytes), text extraction, save/reload.",
    },
    "C19": {
        "text": "CountingWrite (the byte accounting every cross-reference offset is computed from) under an adversarial sink: for every budget 0..9, chunk size 1..3, failure kind (hard error, zero-length write) and one transient Interrupted at any offset, either all bytes arrive unchanged and bytes_written equals the bytes accepted, or an error is reported - never silent success.",
        "design_ref": "DESIGN.md section 4 C19",
        "note": COMMON_NOTE + "NOT decided: Document::save_to / IncrementalDocument::save_to as a whole under a failing sink (they need a Document value, out of reach), BufWriter/file path.",
    },
}

NA_PARSER = "the deciding code is lopdf's nom parser or is reachable only through it; 4 symbolic input bytes through parser::name already exceed 14 GB / 15 min (measured), so no query about it reaches a verdict"
NA_DOC = ("every harness needs a Document value (std BTreeMap<ObjectId, Object> + recursive Object); even fully concrete 3-object "
          "documents did not finish symbolic execution in 420-600 s (measured: c12_get_pages_numbering, c13_dereference_chain, c12_page_iter_wiring), so nothing about it can be decided here")

NOT_APPLICABLE = {
    "C02": NA_PARSER + "; the parser-free kernels tried (decode_xref_stream vs an ISO 7.5.8 reference, Xref::merge, search_substring) exceeded 10-12 GB or 420 s",
    "C07": "reader-side 'latest revision wins' lives in Reader::read behind the nom parser; Xref::merge (std BTreeMap) and IncrementalDocument::save_to (needs Document values) did not reach a verdict inside the caps",
    "C08": "Kani/CBMC has no model of threads or rayon; the schedule-dependent merge is a closure inside Reader::read reachable only through the nom parser",
    "C10": NA_DOC,
    "C11": NA_DOC,
    "C12": NA_DOC,
    "C13": NA_DOC,
    "C15": "ToUnicodeCMap sits on rangemap (std BTreeMap) and nested Vec<Vec<u16>> targets; harnesses over a contract-level rangemap model were built (harness/cmap.rs) but did not reach a verdict inside the caps; the CMap grammar itself is nom",
    "C17": NA_DOC + "; build_outline additionally uses HashMap (SipHash)",
    "C18": "the conversions run entirely inside chrono/jiff/time strftime/strptime engines and core::fmt, far beyond bounded symbolic execution here; lopdf owns two trivial string helpers only",
}
