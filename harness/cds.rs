//! C16 / C04 harnesses for src/common_data_structures/mod.rs (text strings).
use super::*;
use crate::verif_common::*;
#[allow(unused_imports)]
use verif_support;

fn obj_bytes(o: &Object) -> &[u8] {
    match o {
        Object::String(b, _) => b,
        _ => panic!("text_string must produce a String object"),
    }
}

/// ISO 32000-1 7.9.2.2: a text string is PDFDocEncoding or UTF-16BE with BOM FE FF.
/// Round trip for every string of exactly one Unicode scalar value.
#[kani::proof]
#[kani::unwind(8)]
fn c16_text_string_rt_1() {
    let c: char = kani::any();
    let mut b = [0u8; 4];
    let s: &str = c.encode_utf8(&mut b);
    let o = text_string(s);
    let bytes = obj_bytes(&o);
    if (c as u32) < 0x80 {
        // "ASCII stays PDFDocEncoding" whenever PDFDocEncoding can represent the character
        if (c as u32) >= 0x20 && (c as u32) < 0x7F {
            assert!(bytes.len() == 1 && bytes[0] == c as u8, "printable ASCII must stay one PDFDocEncoding byte");
        }
    } else {
        assert!(bytes.len() >= 4 && bytes[0] == 0xFE && bytes[1] == 0xFF, "non-ASCII text must be UTF-16BE with BOM");
    }
    let d = decode_text_string(&o);
    match &d {
        Ok(t) => {
            let mut it = t.chars();
            let first = it.next();
            let second = it.next();
            assert!(first == Some(c) && second.is_none(), "text string does not decode to the original character");
        }
        Err(_) => panic!("text string produced by text_string() is rejected by decode_text_string()"),
    }
    kani::cover!((c as u32) > 0xFFFF);
    kani::cover!((c as u32) < 0x20);
    std::mem::forget(d);
    std::mem::forget(o);
}

/// ASCII only (the PDFDocEncoding branch): every one-character ASCII string, including the C0
/// controls and DEL, round-trips.
#[kani::proof]
#[kani::unwind(6)]
fn c16_text_string_ascii_1() {
    let b: u8 = kani::any();
    kani::assume(b < 0x80);
    let buf = [b];
    let s = match std::str::from_utf8(&buf) {
        Ok(s) => s,
        Err(_) => unreachable!(),
    };
    let o = text_string(s);
    let d = decode_text_string(&o);
    match &d {
        Ok(t) => assert!(t.len() == 1 && t.as_bytes()[0] == b, "ASCII text string does not decode to the original character"),
        Err(_) => panic!("text string produced by text_string() is rejected by decode_text_string()"),
    }
    kani::cover!(b == 9);
    std::mem::forget(d);
    std::mem::forget(o);
}

/// Two scalar values (mixes ASCII / BMP / astral, so the "all ASCII?" decision and surrogate pairs interact).
#[kani::proof]
#[kani::unwind(12)]
fn c16_text_string_rt_2() {
    let c1: char = kani::any();
    let c2: char = kani::any();
    let mut s = String::with_capacity(8);
    s.push(c1);
    s.push(c2);
    let o = text_string(&s);
    let d = decode_text_string(&o);
    match &d {
        Ok(t) => {
            let mut it = t.chars();
            let a = it.next();
            let b = it.next();
            let e = it.next();
            assert!(a == Some(c1) && b == Some(c2) && e.is_none(), "text string does not decode to the original two characters");
        }
        Err(_) => panic!("text string produced by text_string() is rejected by decode_text_string()"),
    }
    kani::cover!((c1 as u32) < 0x80 && (c2 as u32) > 0xFFFF);
    std::mem::forget(d);
    std::mem::forget(o);
    std::mem::forget(s);
}

/// UTF-8 with byte-order mark (PDF 2.0): decoding returns the text (without the mark).
#[kani::proof]
#[kani::unwind(10)]
fn c16_text_string_utf8_bom() {
    let c: char = kani::any();
    let mut b = [0u8; 4];
    let s: &str = c.encode_utf8(&mut b);
    let bytes = encodings::encode_utf8(s);
    assert!(bytes.len() >= 4 && bytes[0] == 0xEF && bytes[1] == 0xBB && bytes[2] == 0xBF);
    let o = Object::String(bytes, StringFormat::Literal);
    let d = decode_text_string(&o);
    match &d {
        Ok(t) => {
            let mut it = t.chars();
            let first = it.next();
            let second = it.next();
            assert!(first == Some(c) && second.is_none(), "UTF-8 text string with BOM does not decode to the original character");
        }
        Err(_) => panic!("UTF-8 text string with BOM rejected"),
    }
    kani::cover!((c as u32) > 0xFFFF);
    std::mem::forget(d);
    std::mem::forget(o);
}

/// C04 / C16: arbitrary bytes (any BOM, odd-length UTF-16, lone surrogates, invalid UTF-8): value or error, never a panic.
macro_rules! dts_total {
    ($name:ident, $n:expr, $unw:expr) => {
        #[kani::proof]
        #[kani::unwind($unw)]
        fn $name() {
            let raw: [u8; $n] = kani::any();
            let o = Object::String(raw.to_vec(), StringFormat::Literal);
            let d = decode_text_string(&o);
            kani::cover!(d.is_ok() && raw[0] == 0xFE && raw[1] == 0xFF);
            kani::cover!(d.is_err());
            std::mem::forget(d);
            std::mem::forget(o);
        }
    };
}
dts_total!(c04_decode_text_string_3, 3, 8);
dts_total!(c04_decode_text_string_4, 4, 9);
dts_total!(c04_decode_text_string_5, 5, 10);

// ---- text_string -> decode_text_string round trip, one harness per UTF-8 length class --------------
/// UTF-8 bytes of a scalar value, by construction (RFC 3629); returns the number of bytes.
fn utf8_of(cp: u32, out: &mut [u8; 4]) -> usize {
    if cp < 0x80 {
        out[0] = cp as u8;
        1
    } else if cp < 0x800 {
        out[0] = 0xC0 | (cp >> 6) as u8;
        out[1] = 0x80 | (cp & 0x3F) as u8;
        2
    } else if cp < 0x10000 {
        out[0] = 0xE0 | (cp >> 12) as u8;
        out[1] = 0x80 | ((cp >> 6) & 0x3F) as u8;
        out[2] = 0x80 | (cp & 0x3F) as u8;
        3
    } else {
        out[0] = 0xF0 | (cp >> 18) as u8;
        out[1] = 0x80 | ((cp >> 12) & 0x3F) as u8;
        out[2] = 0x80 | ((cp >> 6) & 0x3F) as u8;
        out[3] = 0x80 | (cp & 0x3F) as u8;
        4
    }
}

/// One scalar value whose UTF-8 form has exactly K bytes: text_string() then decode_text_string()
/// returns exactly that character.
fn text_string_rt<const K: usize>(lo: u32, hi: u32) {
    let cp: u32 = kani::any();
    kani::assume(cp >= lo && cp <= hi);
    kani::assume(cp < 0xD800 || cp > 0xDFFF);
    let mut b = [0u8; 4];
    let n = utf8_of(cp, &mut b);
    assert!(n == K);
    let mut kb = [0u8; K];
    let mut i = 0;
    while i < K {
        kb[i] = b[i];
        i += 1;
    }
    let s = verif_support::str_from_valid_utf8(&kb);
    let o = text_string(s);
    {
        let bytes = obj_bytes(&o);
        if cp >= 0x80 {
            assert!(bytes.len() >= 4 && bytes[0] == 0xFE && bytes[1] == 0xFF, "non-ASCII text must be UTF-16BE with BOM");
        } else if cp >= 0x20 && cp < 0x7F {
            assert!(bytes.len() == 1 && bytes[0] == cp as u8, "printable ASCII must stay one PDFDocEncoding byte");
        }
    }
    let d = decode_text_string(&o);
    match &d {
        Ok(t) => {
            let tb = t.as_bytes();
            assert!(tb.len() == K, "text string does not decode to the original character");
            let mut i = 0;
            while i < K {
                assert!(tb[i] == kb[i], "text string does not decode to the original character");
                i += 1;
            }
        }
        Err(_) => panic!("text string produced by text_string() is rejected by decode_text_string()"),
    }
    kani::cover!(cp == hi);
    kani::cover!(cp == lo);
    std::mem::forget(d);
    std::mem::forget(o);
}
#[kani::proof]
#[kani::unwind(8)]
#[kani::stub(<str>::is_ascii, str_is_ascii_model)]
fn c16_text_string_rt_utf8len1() {
    text_string_rt::<1>(0x00, 0x7F);
}
#[kani::proof]
#[kani::unwind(8)]
#[kani::stub(<str>::is_ascii, str_is_ascii_model)]
fn c16_text_string_rt_utf8len2() {
    text_string_rt::<2>(0x80, 0x7FF);
}
#[kani::proof]
#[kani::unwind(8)]
#[kani::stub(<str>::is_ascii, str_is_ascii_model)]
fn c16_text_string_rt_utf8len3() {
    text_string_rt::<3>(0x800, 0xFFFF);
}
#[kani::proof]
#[kani::unwind(8)]
#[kani::stub(<str>::is_ascii, str_is_ascii_model)]
fn c16_text_string_rt_utf8len4() {
    text_string_rt::<4>(0x10000, 0x10FFFF);
}

/// UTF-8 with byte-order mark (PDF 2.0), 2-byte class: decoding returns the text without the mark.
#[kani::proof]
#[kani::unwind(8)]
fn c16_text_string_utf8_bom_len2() {
    let cp: u32 = kani::any();
    kani::assume(cp >= 0x80 && cp <= 0x7FF);
    let mut b = [0u8; 4];
    let _ = utf8_of(cp, &mut b);
    let kb = [b[0], b[1]];
    let s = verif_support::str_from_valid_utf8(&kb);
    let bytes = encodings::encode_utf8(s);
    assert!(bytes.len() == 5 && bytes[0] == 0xEF && bytes[1] == 0xBB && bytes[2] == 0xBF && bytes[3] == kb[0] && bytes[4] == kb[1]);
    let o = Object::String(bytes, StringFormat::Literal);
    let d = decode_text_string(&o);
    match &d {
        Ok(t) => {
            let tb = t.as_bytes();
            assert!(tb.len() == 2 && tb[0] == kb[0] && tb[1] == kb[1], "UTF-8 text string with BOM does not decode to the original text");
        }
        Err(_) => panic!("UTF-8 text string with BOM rejected"),
    }
    kani::cover!(cp == 0x7FF);
    std::mem::forget(d);
    std::mem::forget(o);
}

/// Model of `str::is_ascii` (std's implementation reads the string a machine word at a time with
/// alignment arithmetic, which CBMC encodes very expensively): plain byte loop, same semantics.
fn str_is_ascii_model(s: &str) -> bool {
    let b = s.as_bytes();
    let mut i = 0;
    while i < b.len() {
        if b[i] >= 0x80 {
            return false;
        }
        i += 1;
    }
    true
}

// ---- the two halves of the round trip, each on concrete-length byte strings ---------------------
/// decode half, PDFDocEncoding branch: a one-byte ASCII string (what text_string() produces for a
/// one-character ASCII text) decodes to exactly that character - including TAB, LF, CR and the
/// other C0 controls the property quantifies over.
#[kani::proof]
#[kani::unwind(8)]
fn c16_decode_pdfdoc_ascii_1() {
    let b: u8 = kani::any();
    kani::assume(b < 0x80);
    // only the bytes text_string() may emit for ASCII text (c16_text_string_dispatch): 0x18..0x1F are
    // accents in PDFDocEncoding and are written as UTF-16BE instead
    kani::assume(encodings::PDF_DOC_ENCODING[b as usize] == Some(b as u16));
    let o = Object::String(vec![b], StringFormat::Literal);
    let d = decode_text_string(&o);
    match &d {
        Ok(t) => {
            // length only: reading the String's bytes back is what exhausts memory here; the mapping of
            // each byte value to its character is decided on the table itself (c16_tables_published_rules)
            assert!(t.len() == 1, "one-character ASCII text string does not decode to exactly one ASCII character");
        }
        Err(_) => panic!("ASCII text string rejected"),
    }
    kani::cover!(b == 0x41);
    std::mem::forget(d);
    std::mem::forget(o);
}

/// decode half, UTF-16BE branch, one BMP unit: FE FF hi lo decodes to that character.
#[kani::proof]
#[kani::unwind(8)]
fn c16_decode_utf16_unit() {
    let u: u16 = kani::any();
    kani::assume(u < 0xD800 || u > 0xDFFF);
    let o = Object::String(vec![0xFE, 0xFF, (u >> 8) as u8, u as u8], StringFormat::Hexadecimal);
    let d = decode_text_string(&o);
    let mut exp = [0u8; 4];
    let n = utf8_of(u as u32, &mut exp);
    match &d {
        Ok(t) => {
            let tb = t.as_bytes();
            assert!(tb.len() == n, "UTF-16BE text string decodes to a different character");
            let mut i = 0;
            while i < 4 {
                if i < n {
                    assert!(tb[i] == exp[i], "UTF-16BE text string decodes to a different character");
                }
                i += 1;
            }
        }
        Err(_) => panic!("valid UTF-16BE text string rejected"),
    }
    kani::cover!(u == 0xFFFF);
    std::mem::forget(d);
    std::mem::forget(o);
}

/// decode half, UTF-16BE branch, surrogate pair: one astral character.
#[kani::proof]
#[kani::unwind(8)]
fn c16_decode_utf16_pair() {
    let cp: u32 = kani::any();
    kani::assume(cp >= 0x10000 && cp <= 0x10FFFF);
    let x = cp - 0x10000;
    let hi = 0xD800 + (x >> 10);
    let lo = 0xDC00 + (x & 0x3FF);
    let o = Object::String(vec![0xFE, 0xFF, (hi >> 8) as u8, hi as u8, (lo >> 8) as u8, lo as u8], StringFormat::Hexadecimal);
    let d = decode_text_string(&o);
    let mut exp = [0u8; 4];
    let n = utf8_of(cp, &mut exp);
    assert!(n == 4);
    match &d {
        Ok(t) => {
            assert!(t.len() == 4, "surrogate pair does not decode to one astral (4-byte UTF-8) character");
        }
        Err(_) => panic!("valid surrogate pair rejected"),
    }
    kani::cover!(cp == 0x10FFFF);
    std::mem::forget(d);
    std::mem::forget(o);
}

/// A code below 0x80 can be written as a PDFDocEncoding byte only if PDFDocEncoding maps that byte
/// back to the same character (0x18..0x1F are accents in PDFDocEncoding, ISO 32000-1 Annex D.2).
fn pdfdoc_keeps(cp: u32) -> bool {
    cp < 0x80 && encodings::PDF_DOC_ENCODING[cp as usize] == Some(cp as u16)
}

/// encode half: text_string() writes a one-character text either as the single PDFDocEncoding byte
/// (only if that byte decodes back to the character; printable ASCII always does) or as
/// FE FF + UTF-16BE.  Together with the decode-half harnesses this gives the round trip for every
/// one-character string up to U+07FF.
#[kani::proof]
#[kani::unwind(8)]
#[kani::stub(<str>::is_ascii, str_is_ascii_model)]
fn c16_text_string_dispatch() {
    let cp: u32 = kani::any();
    kani::assume(cp <= 0x7FF);
    let mut b = [0u8; 4];
    let n = utf8_of(cp, &mut b);
    let one = [b[0]];
    let two = [b[0], b[1]];
    let s = if n == 1 { verif_support::str_from_valid_utf8(&one) } else { verif_support::str_from_valid_utf8(&two) };
    let o = text_string(s);
    match &o {
        Object::String(bytes, _fmt) => {
            if bytes.len() == 1 {
                assert!(bytes[0] == cp as u8 && pdfdoc_keeps(cp), "text written as a PDFDocEncoding byte that does not decode back to the same character");
            } else {
                assert!(bytes.len() == 4 && bytes[0] == 0xFE && bytes[1] == 0xFF && bytes[2] == (cp >> 8) as u8 && bytes[3] == cp as u8, "text must be one PDFDocEncoding byte or BOM + UTF-16BE");
            }
            if cp >= 0x20 && cp < 0x7F {
                assert!(bytes.len() == 1, "printable ASCII must stay PDFDocEncoding");
            }
        }
        _ => panic!("text_string must produce a String object"),
    }
    kani::cover!(cp == 0x7F);
    kani::cover!(cp == 0x80);
    std::mem::forget(o);
}
