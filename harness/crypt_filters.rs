//! C06 harnesses for src/encryption/crypt_filters.rs: ISO 32000-1 Algorithm 1 (per-object keys).
//! Built with the *recording* md-5 model (see /verif/models/md-5): the harness compares the exact
//! message lopdf feeds to MD5 with the message Algorithm 1 prescribes.
use super::*;
use md5::verif;

/// Algorithm 1, steps a-c: MD5( file key ‖ low-order 3 bytes of the object number ‖ low-order
/// 2 bytes of the generation number [‖ "sAlT" for AES] ), truncated to min(n + 5, 16) bytes.
fn alg1_harness<const N: usize>(aes: bool) {
    let key: [u8; N] = kani::any();
    let num: u32 = kani::any();
    let gen: u16 = kani::any();
    verif::reset();
    let r = if aes {
        Aes128CryptFilter.compute_key(&key, (num, gen))
    } else {
        Rc4CryptFilter.compute_key(&key, (num, gen))
    };
    // expected message
    let mut m = [0u8; 32];
    let mut n = 0;
    while n < N {
        m[n] = key[n];
        n += 1;
    }
    m[n] = num as u8;
    m[n + 1] = (num >> 8) as u8;
    m[n + 2] = (num >> 16) as u8;
    m[n + 3] = gen as u8;
    m[n + 4] = (gen >> 8) as u8;
    n += 5;
    if aes {
        m[n] = b's';
        m[n + 1] = b'A';
        m[n + 2] = b'l';
        m[n + 3] = b'T';
        n += 4;
    }
    assert!(verif::count() == 1, "Algorithm 1 uses exactly one MD5 computation");
    assert!(verif::msg_len(0) == n, "MD5 input has the wrong length");
    let mut i = 0;
    while i < 32 {
        if i < n {
            assert!(verif::msg_byte(0, i) == m[i], "MD5 input differs from ISO 32000-1 Algorithm 1");
        }
        i += 1;
    }
    let exp = verif::model_digest(&m, n);
    let klen = if N + 5 < 16 { N + 5 } else { 16 };
    match &r {
        Ok(k) => {
            assert!(k.len() == klen, "object key length must be min(n + 5, 16)");
            let mut i = 0;
            while i < 16 {
                if i < klen {
                    assert!(k[i] == exp[i], "object key is not the leading bytes of the digest");
                }
                i += 1;
            }
        }
        Err(_) => panic!("compute_key failed"),
    }
    kani::cover!(num > 0xFFFFFF && gen > 0xFF);
    std::mem::forget(r);
}
#[kani::proof]
#[kani::unwind(98)]
fn c06_alg1_rc4_key40() {
    alg1_harness::<5>(false);
}
#[kani::proof]
#[kani::unwind(98)]
fn c06_alg1_rc4_key128() {
    alg1_harness::<16>(false);
}
#[kani::proof]
#[kani::unwind(98)]
fn c06_alg1_aes_key128() {
    alg1_harness::<16>(true);
}

/// Identity crypt filter: key and data pass through unchanged.
#[kani::proof]
#[kani::unwind(8)]
fn c05_identity_filter() {
    let data: [u8; 4] = kani::any();
    let key: [u8; 5] = kani::any();
    let f = IdentityCryptFilter;
    let e = f.encrypt(&key, &data);
    let d = f.decrypt(&key, &data);
    assert!(matches!(&e, Ok(v) if v.len() == 4 && v[0] == data[0] && v[3] == data[3]));
    assert!(matches!(&d, Ok(v) if v.len() == 4 && v[0] == data[0] && v[3] == data[3]));
    kani::cover!(true);
    std::mem::forget((e, d));
}

/// RC4 crypt filter: decrypt(encrypt(x)) == x for a concrete 10-byte object key, all 6-byte data.
#[kani::proof]
#[kani::unwind(258)]
fn c05_rc4_filter_roundtrip() {
    let data: [u8; 6] = kani::any();
    let key = [1u8, 2, 3, 4, 5, 6, 7, 8, 9, 10];
    let f = Rc4CryptFilter;
    let e = match f.encrypt(&key, &data) {
        Ok(v) => v,
        Err(_) => panic!("encrypt failed"),
    };
    assert!(e.len() == 6);
    let d = match f.decrypt(&key, &e) {
        Ok(v) => v,
        Err(_) => panic!("decrypt failed"),
    };
    assert!(d.len() == 6);
    let mut i = 0;
    while i < 6 {
        assert!(d[i] == data[i], "RC4 crypt filter does not round-trip");
        i += 1;
    }
    kani::cover!(true);
    std::mem::forget((e, d));
}

/// Algorithm 1.A (AESV3): the 32-byte file encryption key is used as is for every object.
#[kani::proof]
#[kani::unwind(34)]
fn c06_alg1a_aes256_key() {
    let key: [u8; 32] = kani::any();
    let num: u32 = kani::any();
    let gen: u16 = kani::any();
    verif::reset();
    let r = Aes256CryptFilter.compute_key(&key, (num, gen));
    assert!(verif::count() == 0, "Algorithm 1.A uses no MD5");
    match &r {
        Ok(k) => {
            assert!(k.len() == 32);
            let mut i = 0;
            while i < 32 {
                assert!(k[i] == key[i], "AESV3 object key must be the file encryption key");
                i += 1;
            }
        }
        Err(_) => panic!("compute_key failed"),
    }
    kani::cover!(true);
    std::mem::forget(r);
}
