//! C12 / C13 harnesses for src/document.rs.  Child module of `crate::document`.
use super::*;
#[allow(unused_imports)]
use verif_support;

fn fixed_random_state() -> std::hash::RandomState {
    verif_support::fixed_random_state()
}

fn put(doc: &mut Document, id: u32, o: Object) {
    std::mem::forget(doc.objects.insert((id, 0), o));
    if id > doc.max_id {
        doc.max_id = id;
    }
}

fn sym_ref(max: u32) -> Object {
    let t: u32 = kani::any();
    kani::assume(t >= 1 && t <= max);
    Object::Reference((t, 0))
}

/// dereference() on reference chains / cycles among 3 objects (+ dangling id 4): terminates within
/// DEREF_LIMIT steps, never panics, returns the first non-reference object of the chain.
#[kani::proof]
#[kani::unwind(132)]
#[kani::stub(std::hash::RandomState::new, fixed_random_state)]
fn c13_dereference_cycles() {
    let mut doc = Document::new();
    let k: [u8; 3] = kani::any();
    let mut id = 1;
    while id <= 3 {
        let o = if k[id as usize - 1] % 2 == 0 { sym_ref(4) } else { Object::Integer(id as i64) };
        put(&mut doc, id, o);
        id += 1;
    }
    let start = sym_ref(4);
    let r = doc.dereference(&start);
    match &r {
        Ok((rid, obj)) => {
            assert!(rid.is_some());
            assert!(!matches!(obj, Object::Reference(_)), "dereference stopped on a reference");
        }
        Err(_) => {}
    }
    kani::cover!(r.is_ok());
    kani::cover!(matches!(r, Err(Error::ReferenceLimit)));
    kani::cover!(matches!(r, Err(Error::ObjectNotFound(_))));
    std::mem::forget(r);
    std::mem::forget(doc);
}

fn name(s: &[u8]) -> Object {
    Object::Name(s.to_vec())
}

/// Build a page-tree node. `kids` are object numbers (0 = no entry).
fn node(is_pages: bool, typed: bool, kids: &[u32], nk: usize) -> Object {
    let mut d = Dictionary::new();
    if typed {
        d.set("Type", name(if is_pages { b"Pages" } else { b"Page" }));
    }
    if is_pages {
        let mut a = Vec::with_capacity(4);
        let mut i = 0;
        while i < nk {
            a.push(Object::Reference((kids[i], 0)));
            i += 1;
        }
        d.set("Kids", Object::Array(a));
    }
    Object::Dictionary(d)
}

/// Well-formed trees over nodes 3..=6 under root Pages node 2 (catalog 1): each node is a Page or a
/// Pages node; kids of a node only point to higher-numbered nodes (forest, no sharing enforced by
/// construction: node k's parent is chosen, not its kids).  Reference DFS vs page_iter().
#[kani::proof]
#[kani::unwind(12)]
#[kani::stub(std::hash::RandomState::new, fixed_random_state)]
fn c12_page_iter_tree4() {
    // parent[k] for k in 3..=6 is in 2..k ; node k is Pages or Page; a node can only be a parent if it is Pages
    let mut parent = [0u32; 7];
    let mut is_pages = [false; 7];
    is_pages[2] = true;
    let mut k = 3;
    while k <= 6 {
        let p: u32 = kani::any();
        kani::assume(p >= 2 && p < k as u32 && is_pages[p as usize]);
        parent[k] = p;
        is_pages[k] = kani::any();
        k += 1;
    }
    let mut doc = Document::new();
    let mut cat = Dictionary::new();
    cat.set("Type", name(b"Catalog"));
    cat.set("Pages", Object::Reference((2, 0)));
    put(&mut doc, 1, Object::Dictionary(cat));
    doc.trailer.set("Root", Object::Reference((1, 0)));
    // kids lists in increasing id order (left-to-right)
    let mut n = 2;
    while n <= 6 {
        let mut kids = [0u32; 4];
        let mut nk = 0;
        let mut c = n + 1;
        while c <= 6 {
            if parent[c] == n as u32 {
                kids[nk] = c as u32;
                nk += 1;
            }
            c += 1;
        }
        put(&mut doc, n as u32, node(is_pages[n], true, &kids, nk));
        n += 1;
    }
    // reference DFS (pre-order over increasing ids == depth-first, left-to-right for this construction)
    let mut exp = [0u32; 5];
    let mut ne = 0;
    // explicit stack
    let mut stack = [0u32; 8];
    let mut sp = 0;
    stack[sp] = 2;
    sp += 1;
    let mut guard = 0;
    while sp > 0 && guard < 8 {
        guard += 1;
        sp -= 1;
        let cur = stack[sp] as usize;
        if !is_pages[cur] {
            exp[ne] = cur as u32;
            ne += 1;
        } else {
            // push children in reverse order
            let mut c = 6;
            while c > cur {
                if parent[c] == cur as u32 {
                    stack[sp] = c as u32;
                    sp += 1;
                }
                c -= 1;
            }
        }
    }
    let mut it = doc.page_iter();
    let mut i = 0;
    while i < 5 {
        let got = it.next();
        if i < ne {
            assert!(got == Some((exp[i], 0)), "page_iter is not the depth-first left-to-right order");
        } else {
            assert!(got.is_none(), "page_iter yields extra pages");
        }
        i += 1;
    }
    kani::cover!(ne == 4);
    kani::cover!(ne == 1 && is_pages[3] && is_pages[4] && parent[4] == 3);
    std::mem::forget(it);
    std::mem::forget(doc);
}
