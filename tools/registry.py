"""Harness registry: which #[kani::proof] decides which property, at which tier, with which bound."""

DEFAULT_MODELS = ["indexmap", "flate2", "weezl", "log"]

HARNESSES = []


def H(name, module, props, funcs, bound, timeout=300, mem_gb=10, **kw):
    d = dict(name=name, module=module, props=props, funcs=funcs, bound=bound, timeout=timeout, mem_gb=mem_gb)
    d.update(kw)
    HARNESSES.append(d)


Q, T = "quick", "thorough"

# ---------------------------------------------------------------- C09 (filters) -----------------
H("c09_paeth", "png.rs", {"C09": Q}, ["filters::png::paeth_predict"],
  "all 2^24 (left, above, upper-left) triples vs PNG 9.4 text", timeout=120)
for ft in ("none", "sub", "up", "avg", "paeth"):
    H(f"c09_row_{ft}_4", "png.rs", {"C09": Q}, ["filters::png::decode_row"],
      "all rows of length 0..=4 x previous rows x bpp 1..=3 vs PNG 9.2 reconstruction", timeout=300)

for n, tier, to in ((1, Q, 200), (2, Q, 300), (3, Q, 500), (4, Q, 900), (5, T, 1800), (6, T, 2700), (7, T, 3600)):
    H(f"c09_ascii85_eod_{n}", "object.rs", {"C09": tier}, ["object::Stream::decode_ascii85"],
      f"all 256^{n} bodies of exactly {n} bytes followed by the EOD marker '~>' vs ISO 32000-1 7.4.3 reference decoder", timeout=to,
      mem_gb=10 if n >= 4 else 6)
for n, tier, to in ((2, Q, 600), (3, T, 1800)):
    H(f"c09_ascii85_noeod_{n}", "object.rs", {"C09": tier}, ["object::Stream::decode_ascii85"],
      f"all inputs of exactly {n} bytes without EOD marker vs ISO 32000-1 7.4.3 reference decoder", timeout=to, mem_gb=10)
for n, tier, to in ((4, Q, 600), (5, Q, 900), (6, T, 2700)):
    H(f"c04_ascii85_nopanic_{n}", "object.rs", {"C04": tier}, ["object::Stream::decode_ascii85"],
      f"all 256^{n} inputs of exactly {n} bytes: no panic (overflow checks on), returns Ok or Err", timeout=to, mem_gb=8)
H("c09_predictor_params", "object.rs", {"C09": Q}, ["object::Stream::decompress_predictor"],
  "Predictor 0..=20, Columns 1..=10^6, Colors 1..=32, Bits in {8,16}, each key present/absent; png::decode_frame replaced by a recording stub",
  stubs=["filters::png::decode_frame -> recording stub"])
H("c09_predictor_none", "object.rs", {"C09": Q}, ["object::Stream::decompress_predictor"], "no DecodeParms, all 3-byte data")
H("c04_predictor_params_any", "object.rs", {"C04": Q}, ["object::Stream::decompress_predictor"],
  "Predictor 12 with ANY i64 Columns, Colors, BitsPerComponent; decode_frame replaced by a recording stub",
  stubs=["filters::png::decode_frame -> recording stub"])
for g in ("c2_k1_b8", "c1_k1_b16", "c1_k3_b8", "c2_k1_b16"):
    H(f"c09_predictor_frame_{g}", "object.rs", {"C09": Q if g != "c2_k1_b16" else T},
      ["object::Stream::decompress_predictor", "filters::png::decode_frame", "filters::png::decode_row"],
      f"geometry {g} (columns/colors/bits), two rows, all filter bytes and data bytes, predictor 10..=15, vs PNG 9.2", timeout=600)
H("c09_length_set_ops", "object.rs", {"C09": Q}, ["object::Stream::new", "object::Stream::set_content", "object::Stream::set_plain_content", "object::Stream::decompress"],
  "3-byte initial content, new content of 0..=2 symbolic bytes, op in {set_content, set_plain_content, decompress}")
H("c09_compress_never_longer", "object.rs", {"C09": Q}, ["object::Stream::compress"],
  "22-byte content, encoder stub output length arbitrary 0..=24, pre-existing Filter present/absent", timeout=600)
H("c09_chain_single_dict", "object.rs", {"C09": Q}, ["object::Stream::decompressed_content", "object::Stream::filters", "object::Stream::decompress_zlib", "object::Stream::decompress_lzw", "object::Stream::decompress_predictor"],
  "one filter (Flate|LZW) as Name or 1-array, DecodeParms dict with EarlyChange absent/0/1 and Predictor 12 absent/present, all 4-byte contents; codecs are tagged transparent stubs", timeout=900)
H("c09_chain_parms_array", "object.rs", {"C09": Q}, ["object::Stream::decompressed_content"],
  "1..=2 filters over {Flate,LZW}, DecodeParms as an array parallel to the filters (dict or null per stage), all 4-byte contents", timeout=900)
H("c09_chain_order", "object.rs", {"C09": Q}, ["object::Stream::decompressed_content", "object::Stream::decode_ascii85"],
  "chains of 2..=3 filters over {Flate,LZW,ASCII85}, no parameters, all 5-byte contents", timeout=1200, mem_gb=10)

# ---------------------------------------------------------------- writer kernels (C01/C03/C14/C19)
WK = {"C01": Q, "C03": Q, "C14": Q}
for n, tier in ((1, Q), (2, Q), (3, T)):
    H(f"c01_name_{n}", "writer.rs", {"C01": tier, "C03": tier, "C14": tier}, ["writer::Writer::write_name"],
      f"all names of exactly {n} bytes: token is regular printable ASCII and an ISO 7.3.5 reader recovers the bytes", timeout=900 if n < 3 else 2700)
for n, tier in ((1, Q), (2, Q), (3, Q), (4, T)):
    H(f"c01_litstr_{n}", "writer.rs", {"C01": tier, "C03": tier, "C14": tier}, ["writer::Writer::write_string"],
      f"all literal strings of exactly {n} bytes: an ISO 7.3.4.2 reader (escapes, octal, balanced parentheses, EOL normalisation) recovers the bytes", timeout=900 if n < 4 else 2700)
H("c01_hexstr_2", "writer.rs", WK, ["writer::Writer::write_string"], "all hex strings of 2 bytes", timeout=900)
H("c01_int_i16", "writer.rs", WK, ["writer::Writer::write_object"], "all i16 integers read back by a decimal reader", timeout=600)
H("c01_int_i64", "writer.rs", {"C01": T, "C03": T, "C14": T}, ["writer::Writer::write_object"], "all i64 integers read back by a decimal reader", timeout=2700, mem_gb=10)
H("c03_xref_entry", "writer.rs", {"C01": T, "C03": T}, ["xref::XrefEntry::write_xref_entry"], "all (u32 offset, u16 generation): entry is exactly 20 bytes and both fields read back", timeout=2700, mem_gb=10)
H("c03_xref_entry_free", "writer.rs", {"C03": Q}, ["xref::XrefEntry::write_xref_entry"], "Free / UnusableFree / Compressed entries are 20-byte 'f' entries", timeout=900)
H("c19_counting_write", "writer.rs", {"C19": Q, "C03": Q}, ["writer::CountingWrite::write", "writer::CountingWrite::write_all"],
  "sink budget 0..=12, chunk 1..=4, failure kind {Err, Ok(0)}, one transient Interrupted at any offset; 9 bytes written via write_all/write!", timeout=900)

# ---------------------------------------------------------------- C16 text strings / encodings ---
H("c16_text_string_rt_1", "cds.rs", {"C16": Q}, ["common_data_structures::text_string", "common_data_structures::decode_text_string", "encodings::encode_utf16_be", "encodings::bytes_to_string"],
  "every Unicode scalar value as a one-character string: text_string then decode_text_string returns it", timeout=900, mem_gb=8)
H("c16_text_string_rt_2", "cds.rs", {"C16": T}, ["common_data_structures::text_string", "common_data_structures::decode_text_string"],
  "every pair of Unicode scalar values as a two-character string", timeout=2700, mem_gb=12)
H("c16_text_string_utf8_bom", "cds.rs", {"C16": Q}, ["common_data_structures::decode_text_string", "encodings::encode_utf8"],
  "every scalar value, UTF-8 with byte-order mark", timeout=900, mem_gb=8)
for n, tier, to in ((3, Q, 600), (4, Q, 900), (5, T, 2700)):
    H(f"c04_decode_text_string_{n}", "cds.rs", {"C04": tier, "C16": tier}, ["common_data_structures::decode_text_string"],
      f"all 256^{n} raw strings of exactly {n} bytes: Ok or Err, no panic", timeout=to, mem_gb=8)
for t in ("standard", "macroman", "macexpert", "winansi", "pdfdoc"):
    H(f"c16_table_{t}", "encodings.rs", {"C16": Q}, ["encodings::bytes_to_string"],
      f"{t} table x all 256 bytes: decode total, equals the table cell, <= 1 char", timeout=600, mem_gb=6)
H("c16_reencode_winansi", "encodings.rs", {"C16": T}, ["encodings::bytes_to_string", "encodings::string_to_bytes"],
  "WinAnsi x all 256 bytes: decode-encode-decode stable", timeout=3000, mem_gb=8)
H("c16_tables_published_rules", "encodings.rs", {"C16": Q}, ["encodings::mappings"], "all 256 bytes vs Annex D rules (printable ASCII, Latin-1 range)", timeout=300)
H("c16_encode_utf16_be", "encodings.rs", {"C16": Q}, ["encodings::encode_utf16_be"], "every Unicode scalar value", timeout=600)

# ---------------------------------------------------------------- C05 / C06 primitives ----------
H("c05_pkcs5_roundtrip", "pkcs5.rs", {"C05": Q, "C06": Q}, ["encryption::pkcs5::Pkcs5::raw_pad", "encryption::pkcs5::Pkcs5::raw_unpad"],
  "all 16-byte blocks x all pad positions 0..=15", timeout=600)
H("c05_pkcs5_unpad_spec", "pkcs5.rs", {"C05": Q, "C06": Q}, ["encryption::pkcs5::Pkcs5::raw_unpad"],
  "all 16-byte blocks: accepted iff PKCS#5-well-formed", timeout=600)
FS300 = ["-Z", "unstable-options", "--cbmc-args", "--max-field-sensitivity-array-size", "300"]
H("c06_rc4_key_vector", "rc4.rs", {"C05": Q, "C06": Q}, ["encryption::rc4::Rc4::new", "encryption::rc4::Rc4::encrypt", "encryption::rc4::Rc4::decrypt"],
  "key 'Key' (published vector), all 8-byte plaintexts; decrypt inverts encrypt", kani_args=FS300, timeout=900)
H("c06_rc4_ref_key40", "rc4.rs", {"C06": Q, "C05": Q}, ["encryption::rc4::Rc4::new", "encryption::rc4::Rc4::apply_keystream"], "one concrete 40-bit key, all 6-byte plaintexts vs reference RC4", kani_args=FS300, timeout=900)
H("c06_rc4_ref_key128", "rc4.rs", {"C06": Q}, ["encryption::rc4::Rc4::new", "encryption::rc4::Rc4::apply_keystream"], "one concrete 128-bit key, all 6-byte plaintexts vs reference RC4", kani_args=FS300, timeout=900)
H("c06_rc4_ref_symkey1", "rc4.rs", {"C06": T}, ["encryption::rc4::Rc4::new", "encryption::rc4::Rc4::apply_keystream"], "every 1-byte key x all 2-byte plaintexts vs reference RC4", kani_args=FS300, timeout=2700, mem_gb=16)
H("c06_rc4_ref_symkey2", "rc4.rs", {"C06": T}, ["encryption::rc4::Rc4::new", "encryption::rc4::Rc4::apply_keystream"], "every 2-byte key x all 2-byte plaintexts vs reference RC4", kani_args=FS300, timeout=2700, mem_gb=16)

# ---------------------------------------------------------------- C02 / C07 / C04 structural ----
XF = ["parser_aux::decode_xref_stream", "parser_aux::read_big_endian_integer", "parser_aux::parse_integer_array", "xref::Xref::insert"]
H("c02_xrefstm_c6_w2", "parser_aux.rs", {"C02": Q, "C07": Q, "C04": Q}, XF,
  "W each 0..=2, Index [start 0..=3, count 0..=2] or absent (Size 0..=2), all 6-byte contents vs ISO 7.5.8 reference", timeout=1200, mem_gb=12)
H("c02_xrefstm_c8_w4", "parser_aux.rs", {"C02": T, "C07": T, "C04": T}, XF,
  "W each 0..=4, Index [start 0..=3, count 0..=2] or absent, all 8-byte contents", timeout=3000, mem_gb=16)
H("c02_xrefstm_two_sections", "parser_aux.rs", {"C02": Q, "C07": Q}, XF, "two subsections [s0 1 s1 1], s0 != s1 in 0..=4, W [1 1 1], all 6-byte contents", timeout=1200, mem_gb=12)
H("c01_xrefstm_entry_packing", "parser_aux.rs", {"C01": Q, "C03": Q}, ["parser_aux::read_big_endian_integer"], "all (u8,u32,u16) entries packed [1 4 2] big-endian read back", timeout=600)
H("c04_xrefstm_hostile_widths", "parser_aux.rs", {"C04": Q}, XF, "W entries any i64 <= 4 or >= 2^44, 6-byte content; allocator model caps allocations at 4 KiB",
  timeout=1200, mem_gb=12, stubs=["std::alloc::{alloc,alloc_zeroed,realloc,dealloc} -> fixed 4 KiB block arena (allocation above it fails an assertion)"])
H("c04_xrefstm_hostile_index", "parser_aux.rs", {"C04": Q}, XF, "Index start any i64, count <= 3 or >= 2^40, Size any i64, W each 0..=1, 6-byte content", timeout=1200, mem_gb=12)
H("c07_xref_merge_newest_wins", "xref.rs", {"C07": Q, "C02": Q}, ["xref::Xref::merge"], "ids 1..=3, presence and offsets symbolic in both tables", timeout=900)
H("c02_xref_max_id", "xref.rs", {"C02": Q}, ["xref::Xref::max_id"], "any subset of 4 ids", timeout=600)
for n in ("ab_6", "aab_7", "aa_6"):
    H(f"c02_search_substring_{n}", "reader.rs", {"C02": Q, "C04": Q}, ["reader::Reader::search_substring"],
      f"pattern/buffer {n}: all buffers over the pattern alphabet + 1 foreign byte, all start positions, vs last-occurrence reference", timeout=900)

# ---------------------------------------------------------------- C12 / C13 document level -------
RS = ["std::hash::RandomState::new -> fixed keys"]
H("c13_dereference_cycles", "document.rs", {"C13": Q}, ["document::Document::dereference"],
  "3 objects each a reference to 1..=4 (4 dangling) or an integer; start reference symbolic; DEREF_LIMIT 128 covered by unwind 132", timeout=1200, mem_gb=12, stubs=RS)
H("c12_page_iter_tree4", "document.rs", {"C12": Q, "C13": Q}, ["document::PageTreeIter::new", "document::PageTreeIter::next", "document::PageTreeIter::kids", "document::Document::catalog"],
  "all well-formed page trees with 4 nodes below the root (each Page or Pages, any parent among lower-numbered Pages nodes): page_iter equals reference DFS", timeout=1800, mem_gb=12, stubs=RS)

H("c03_write_xref_4", "writer.rs", {"C03": Q, "C01": Q}, ["writer::Writer::write_xref", "xref::XrefSection::write_xref_section", "xref::XrefEntry::write_xref_entry"],
  "every subset of in-use objects among ids 1..=4 (all gap widths): strict 7.5.4 table reader recovers exactly those entries", timeout=1800, mem_gb=12)
H("c03_write_xref_6", "writer.rs", {"C03": T, "C01": T}, ["writer::Writer::write_xref", "xref::XrefSection::write_xref_section"],
  "every subset of in-use objects among ids 1..=6", timeout=3000, mem_gb=16)
H("c03_xref_stream_rows", "writer.rs", {"C03": Q, "C01": Q}, ["writer::Writer::create_xref_steam"],
  "every subset of in-use objects among ids 1..=4 plus the stream's own entry: W [1 4 2] rows, Index pairs and Length are mutually consistent", timeout=1800, mem_gb=12)

# ---------------------------------------------------------------- C14 content encode ------------
H("c14_encode_two_ops", "content.rs", {"C14": Q}, ["content::Content::encode", "writer::Writer::write_object", "writer::Writer::write_name", "writer::Writer::write_string"],
  "operations '<int -9..=99> /<1 byte> Tf' and '<1-byte string, literal or hex> Tj': reference tokenizer recovers operators and operands", timeout=1800, mem_gb=12,
  stubs=["<[usize]>::contains -> linear scan"])
H("c14_encode_no_operands", "content.rs", {"C14": Q}, ["content::Content::encode"], "one or two operand-less operations", timeout=600, mem_gb=6)


def select(pid, tier):
    out = []
    for h in HARNESSES:
        t = h["props"].get(pid)
        if t is None:
            continue
        if tier == "thorough" or t == Q:
            out.append(h)
    return out


def by_name(name):
    for h in HARNESSES:
        if h["name"] == name:
            return h
    raise KeyError(name)
