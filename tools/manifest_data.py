TECHNIQUE = "bounded model checking of the real Rust code with Kani/CBMC (SAT, CaDiCaL) against in-harness reference models; unwinding assertions on; native replay of counterexamples"

HOOKS = {
    "guard": "kani",
    "enable": "no hook is committed to /repo: every check copies /repo's working tree to a scratch directory, appends `#[cfg(kani)] #[path=\"/verif/harness/<m>.rs\"] mod verif_kani;` to the anchored source files there and patches model crates in the scratch Cargo.toml; cfg(kani) is set only by kani-compiler",
    "baseline_off_cmd": "cd /repo && cargo test --workspace --no-fail-fast --offline",
    "source_commits": [],
    "add_only": True,
}

NOTES = ("All claims are bounded: 'holds for every value of the symbolic inputs inside the per-harness bound listed in the "
         "evidence; nothing is said outside it'. exit 2 = inconclusive (timeout/OOM/unwinding assertion/vacuity), never success.")

PENDING = "check not built yet in this session (see DESIGN.md section 4 for the planned harnesses); not claimed until it runs"

CLAIMS = {
    "C09": {
        "text": "Bounded model checking of png::paeth_predict / decode_row / decode_frame, Stream::decode_ascii85, decompress_predictor parameter plumbing and Length bookkeeping against references written from the PNG and ISO 32000 text, for all inputs inside small stated byte bounds.",
        "design_ref": "DESIGN.md section 4 C09",
        "note": "Flate and LZW bit-level decoding are third-party (flate2, weezl) and replaced by nondeterministic stubs; Bits < 8 and rows longer than the stated bounds are outside the claim.",
    },
}

NOT_APPLICABLE = {
    "C08": "Kani/CBMC has no model of threads or rayon; the schedule-dependent merge is a closure inside Reader::read reachable only through the nom parser (measured out of reach), so there is no kernel this family can decide",
    "C18": "the conversions run entirely inside chrono/jiff/time strftime/strptime engines and core::fmt, far beyond bounded symbolic execution here; lopdf owns two trivial string helpers only",
}
for p in ["C01","C02","C03","C04","C05","C06","C07","C10","C11","C12","C13","C14","C15","C16","C17","C19"]:
    NOT_APPLICABLE.setdefault(p, PENDING)
