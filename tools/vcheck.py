#!/usr/bin/env python3
"""Solver-based property checks for lopdf: drives Kani/CBMC over /repo's current working tree.

usage: check <PROPERTY_ID> [--tier quick|thorough] [--only <harness-substr>] [--keep]
       check --replay <replay-file>
       check --list

exit 0  property held on every harness explored (known findings are printed, not counted)
exit 1  a counterexample was found by the solver AND reproduced natively (VIOLATION line printed)
exit 2  inconclusive / machinery problem (timeout, OOM, failed unwinding assertion, unsatisfied
        cover, non-reproducing counterexample, build error) -- never reported as success
"""
import argparse
import concurrent.futures as cf
import hashlib
import json
import os
import re
import shutil
import signal
import subprocess
import sys
import threading
import time

HERE = os.path.dirname(os.path.abspath(__file__))
VERIF = os.path.dirname(HERE)
sys.path.insert(0, HERE)
import scratch  # noqa: E402
import registry  # noqa: E402

ENV = dict(os.environ)
ENV["CARGO_NET_OFFLINE"] = "true"
ENV.pop("RUSTFLAGS", None)
ENV.pop("CARGO_TARGET_DIR", None)
ENV.pop("RUSTUP_TOOLCHAIN", None)

TOTAL_MEM_GB = int(os.environ.get("VERIF_MEM_GB", "50"))
MAX_PROCS = int(os.environ.get("VERIF_JOBS", "12"))


def log(*a):
    print(*a, flush=True)


def module_path(hfile):
    src = scratch.INJECT[hfile]
    p = src[len("src/"):-len(".rs")]
    if p.endswith("/mod"):
        p = p[:-4]
    if p == "lib":
        return "verif_kani"
    return p.replace("/", "::") + "::verif_kani"


class MemSem:
    """Weighted semaphore: admits harnesses while the sum of their memory caps fits the budget."""

    def __init__(self, total, maxprocs):
        self.total, self.maxprocs = total, maxprocs
        self.used, self.procs = 0, 0
        self.cv = threading.Condition()

    def acquire(self, w):
        w = min(w, self.total)
        with self.cv:
            while self.used + w > self.total or self.procs >= self.maxprocs:
                self.cv.wait()
            self.used += w
            self.procs += 1
        return w

    def release(self, w):
        with self.cv:
            self.used -= w
            self.procs -= 1
            self.cv.notify_all()


def group_rss_kb(pgid):
    """Sum of resident set sizes (kB) of all processes in process group pgid."""
    try:
        out = subprocess.run(["ps", "-eo", "pgid=,rss="], capture_output=True, text=True).stdout
    except Exception:
        return 0
    tot = 0
    for line in out.splitlines():
        parts = line.split()
        if len(parts) == 2 and parts[0] == str(pgid):
            tot += int(parts[1])
    return tot


def run_capped(cmd, cwd, timeout_s, mem_gb, logfile, env=None):
    """Run cmd in its own process group under a wall-clock timeout and a resident-memory cap
    (a watchdog polls the group's RSS; RLIMIT_AS is not used because CBMC/rustc reserve far more
    address space than they touch).  Returns (rc, why_killed or None, wall_s, peak_rss_gb)."""
    t0 = time.time()
    peak = 0
    killed = None
    with open(logfile, "w") as lf:
        p = subprocess.Popen(cmd, cwd=cwd, stdout=lf, stderr=subprocess.STDOUT, env=env or ENV, start_new_session=True)
        while True:
            try:
                p.wait(timeout=2.0)
                break
            except subprocess.TimeoutExpired:
                pass
            rss = group_rss_kb(p.pid)
            peak = max(peak, rss)
            if time.time() - t0 > timeout_s:
                killed = "timeout"
            elif rss > mem_gb * (1 << 20):
                killed = "memory"
            if killed:
                try:
                    os.killpg(p.pid, signal.SIGKILL)
                except ProcessLookupError:
                    pass
                p.wait()
                break
    return p.returncode, killed, time.time() - t0, round(peak / (1 << 20), 2)


CHECK_RE = re.compile(r"^Check (\d+): (.+)\n\t - Status: (\w+)\n\t - Description: \"(.*)\"\n(?:\t - Location: (.*)\n)?", re.M)


def parse_kani_log(text):
    r = {
        "checks": 0, "failed": [], "unwind_failed": [], "undetermined": 0, "unsupported_failed": [],
        "covers": [], "verdict": None, "verif_time": None, "vccs": None, "vars": None, "clauses": None,
        "solver_s": None, "symex_steps": None, "playback": [], "stubs": [],
    }
    for m in CHECK_RE.finditer(text):
        _n, name, status, desc, loc = m.groups()
        if ".cover." in name:
            r["covers"].append({"name": name, "status": status, "desc": desc})
            continue
        r["checks"] += 1
        if status == "FAILURE":
            item = {"check": name, "desc": desc, "loc": loc or ""}
            if ".unwind." in name or "unwinding assertion" in desc:
                r["unwind_failed"].append(item)
            elif "unsupported_construct" in name or "is not currently supported by Kani" in desc:
                r["unsupported_failed"].append(item)
            else:
                r["failed"].append(item)
        elif status == "UNDETERMINED":
            r["undetermined"] += 1
    m = re.search(r"VERIFICATION:- (\w+)", text)
    if m:
        r["verdict"] = m.group(1)
    m = re.search(r"Verification Time: ([0-9.]+)s", text)
    if m:
        r["verif_time"] = float(m.group(1))
    m = re.search(r"Generated (\d+) VCC\(s\), (\d+) remaining after simplification", text)
    if m:
        r["vccs"] = [int(m.group(1)), int(m.group(2))]
    vs = re.findall(r"(\d+) variables, (\d+) clauses", text)
    if vs:
        r["vars"], r["clauses"] = int(vs[-1][0]), int(vs[-1][1])
    ss = re.findall(r"Runtime Solver: ([0-9.e+-]+)s", text)
    if ss:
        r["solver_s"] = round(sum(float(x) for x in ss), 3)
    m = re.search(r"size of program expression: (\d+) steps", text)
    if m:
        r["symex_steps"] = int(m.group(1))
    r["stubs"] = re.findall(r"- Stub: (.*)", text)
    # concrete playback tests
    for m in re.finditer(r"Concrete playback unit test for `([^`]+)`:\n```\n(.*?)\n```", text, re.S):
        body = m.group(2)
        cm = re.search(r"/// Check for `(\w+)`: \"(.*)\"", body)
        vals = re.findall(r"^\s*vec!\[([0-9, ]*)\],?\s*$", body, re.M)
        concrete = [[int(x) for x in v.split(",") if x.strip()] for v in vals]
        desc = cm.group(2) if cm else ""
        desc = desc.replace('\\"', '"').strip('"')
        r["playback"].append({"kind": cm.group(1) if cm else "?", "desc": desc, "vals": concrete, "src": body})
    return r


def kani_cmd(h, target_dir, playback=False):
    full = module_path(h["module"]) + "::" + h["name"]
    cmd = ["cargo", "kani", "--no-default-features"]
    if h.get("features"):
        cmd += ["--features", ",".join(h["features"])]
    cmd += ["--target-dir", target_dir, "--harness", full, "--exact", "--no-memory-safety-checks", "-Z", "stubbing"]
    if playback:
        # only on the second pass, after a property failed: asking CBMC for traces (also of every
        # satisfied cover) costs many GB on large formulas (RC4: 3.5 M clauses passed in 225 s without
        # traces and exceeded 20 GB with them)
        cmd += ["-Z", "concrete-playback", "--concrete-playback=print"]
    cmd += h.get("kani_args", [])
    # CBMC options (must come last).  --max-field-sensitivity-array-size: CBMC constant-propagates
    # reads from arrays / heap blocks only up to this many elements (default 64); lopdf's dictionaries,
    # vectors of objects and 256-entry tables need far more, otherwise every length read back from the
    # heap is "symbolic" and loops are unrolled to the bound (10 GB blow-ups became 20 s).
    # --unwindset memcmp.0:N bounds the C library memcmp loop separately from the harness bound.
    cbmc = ["--max-field-sensitivity-array-size", str(int(os.environ.get("VERIF_FS") or h.get("fs_size", 4096))), "--unwindset", "memcmp.0:%d" % h.get("memcmp_unwind", 40)]
    cmd += ["-Z", "unstable-options", "--cbmc-args"] + cbmc + h.get("cbmc_args", [])
    return cmd


def flavour_key(h):
    return ",".join(h.get("models", registry.DEFAULT_MODELS)) + "|" + ",".join(h.get("features", []))


class Run:
    def __init__(self, pid, tier, seed, keep=False):
        self.pid, self.tier, self.seed, self.keep = pid, tier, seed, keep
        base = os.environ.get("VERIF_SCRATCH") or f"/var/tmp/lopdf-verif.{os.getpid()}"
        self.base = base
        self.sem = MemSem(TOTAL_MEM_GB, MAX_PROCS)
        self.scratches = {}
        self.hashes = {}
        self.lock = threading.Lock()

    def cleanup(self):
        if not self.keep:
            shutil.rmtree(self.base, ignore_errors=True)

    def scratch_for(self, h):
        k = flavour_key(h)
        with self.lock:
            if k not in self.scratches:
                d = os.path.join(self.base, "k%d" % len(self.scratches))
                models = h.get("models", registry.DEFAULT_MODELS)
                self.hashes = scratch.make_scratch(d, models)
                os.makedirs(os.path.join(d, "logs"), exist_ok=True)
                seed = os.path.join(VERIF, ".cache", "target-" + hashlib.sha1(k.encode()).hexdigest()[:10])
                if os.path.isdir(seed):
                    subprocess.run(["cp", "-a", seed, os.path.join(d, "target")], check=False)
                self.scratches[k] = d
            return self.scratches[k]

    def run_harness(self, h):
        d = self.scratch_for(h)
        mem = h.get("mem_gb", 6)
        if os.environ.get("VERIF_DEV_MEMCAP"):
            mem = int(os.environ["VERIF_DEV_MEMCAP"])
        timeout_s = h.get("timeout", 600)
        if os.environ.get("VERIF_DEV_CAP"):
            timeout_s = min(timeout_s, int(os.environ["VERIF_DEV_CAP"]))
        w = self.sem.acquire(mem)
        try:
            logfile = os.path.join(d, "logs", h["name"] + ".log")
            rc, killed, wall, peak = run_capped(kani_cmd(h, os.path.join(d, "target")), d, timeout_s, mem, logfile)
            text = open(logfile, errors="replace").read()
            res = parse_kani_log(text)
            if not killed and res["failed"] and h.get("witness_from"):
                res["playback"] = []
            elif not killed and res["failed"]:
                # second pass: same query with trace generation, to obtain the counterexample values
                logfile2 = os.path.join(d, "logs", h["name"] + ".playback.log")
                # trace generation needs far more memory than the verdict itself
                rc2, killed2, wall2, peak2 = run_capped(kani_cmd(h, os.path.join(d, "target"), playback=True), d, max(timeout_s, 1800),
                                                        h.get("playback_mem_gb", max(mem, 30)), logfile2)
                text2 = open(logfile2, errors="replace").read()
                res2 = parse_kani_log(text2)
                res["playback"] = res2["playback"]
                wall += wall2
                peak = max(peak, peak2)
            if not killed and res["failed"]:
                if not [p for p in res["playback"] if p["kind"] != "cover"] and h.get("witness_from"):
                    # trace generation failed (memory): take the counterexample values from a cheaper
                    # harness with the SAME sequence of kani::any() inputs and assumptions; they are then
                    # replayed natively through THIS harness, so only a real failure of this harness counts
                    wh = registry.by_name(h["witness_from"])
                    logfile3 = os.path.join(d, "logs", h["name"] + ".witness.log")
                    run_capped(kani_cmd(wh, os.path.join(d, "target"), playback=True), d, wh.get("timeout", 600), wh.get("mem_gb", 8), logfile3)
                    res3 = parse_kani_log(open(logfile3, errors="replace").read())
                    first_desc = res["failed"][0]["desc"]
                    res["playback"] = [dict(p, desc=first_desc, via=wh["name"]) for p in res3["playback"] if p["kind"] != "cover"][:1]
        finally:
            self.sem.release(w)
        res.update({"name": h["name"], "rc": rc, "killed": killed, "wall_s": round(wall, 1), "peak_rss_gb": peak, "log": logfile})
        # classification
        covers_ok = bool(res["covers"]) and all(c["status"] == "SATISFIED" for c in res["covers"])
        if killed == "timeout":
            res["class"] = "inconclusive"; res["why"] = f"timeout after {timeout_s}s"
        elif killed == "memory":
            res["class"] = "inconclusive"; res["why"] = f"memory cap {mem} GB exceeded"
        elif "CBMC appears to have run out of memory" in text:
            res["class"] = "inconclusive"; res["why"] = "CBMC ran out of memory"
        elif "Status: ERROR" in text:
            res["class"] = "inconclusive"; res["why"] = "CBMC reported Status: ERROR (resource exhaustion or internal error)"
        elif res["verdict"] is None:
            oom = "std::bad_alloc" in text or "Out of memory" in text or "memory allocation" in text
            res["class"] = "inconclusive"; res["why"] = "out of memory" if oom else "no verdict (build or tool error)"
            res["tail"] = text[-3000:]
        elif res["failed"]:
            res["class"] = "counterexample"
        elif res["unwind_failed"]:
            res["class"] = "inconclusive"; res["why"] = "unwinding assertion failed: " + res["unwind_failed"][0]["loc"]
        elif res["unsupported_failed"]:
            res["class"] = "inconclusive"; res["why"] = "unsupported construct reachable: " + res["unsupported_failed"][0]["desc"]
        elif res["verdict"] == "SUCCESSFUL" and res["undetermined"] == 0:
            if covers_ok:
                res["class"] = "pass"
            else:
                res["class"] = "inconclusive"; res["why"] = "vacuity: cover not satisfied / missing"
        else:
            res["class"] = "inconclusive"; res["why"] = f"verdict {res['verdict']} undetermined={res['undetermined']}"
        return res


def replay_native(run, h, res, pb, idx):
    """Replays one solver counterexample natively (Kani concrete playback) against an unpatched copy of /repo
    (real indexmap etc. unless the harness needs nondeterministic models). Returns (reproduced, path, detail)."""
    use_models = h.get("replay_models", [])
    d = os.path.join(run.base, "replay-%s-%d" % (h["name"], idx))
    scratch.make_scratch(d, use_models, copy_harness=True)
    test_name = "verif_replay_%s_%d" % (h["name"], idx)
    vals = ",\n        ".join("vec![%s]" % ", ".join(str(x) for x in v) for v in pb["vals"])
    test_src = (
        "\n#[test]\nfn %s() {\n    let concrete_vals: Vec<Vec<u8>> = vec![\n        %s\n    ];\n"
        "    kani::concrete_playback_run(concrete_vals, %s);\n}\n" % (test_name, vals, h["name"]))
    with open(os.path.join(d, "verif_harness", h["module"]), "a") as f:
        f.write(test_src)
    cmd = ["cargo", "kani", "playback", "-Z", "concrete-playback", "--no-default-features"]
    if h.get("features"):
        cmd += ["--features", ",".join(h["features"])]
    cmd += ["--", "--exact", module_path(h["module"]) + "::" + test_name]
    logfile = os.path.join(d, "replay.log")
    env = dict(ENV)
    env["CARGO_TARGET_DIR"] = os.path.join(run.base, "replay-target")
    env["RUST_BACKTRACE"] = "0"
    rc, killed, wall, _peak = run_capped(cmd, d, h.get("replay_timeout", 600), 24, logfile, env=env)
    timed_out = killed == "timeout"
    text = open(logfile, errors="replace").read()
    ran = "running 1 test" in text
    reproduced = False
    detail = ""
    if timed_out and ran:
        reproduced, detail = True, "native replay did not terminate within %ds" % h.get("replay_timeout", 600)
    elif ran and re.search(r"test result: FAILED\. 0 passed; 1 failed", text):
        reproduced = True
        m = re.search(r"panicked at ([^\n]*):\n([^\n]*)", text)
        detail = (m.group(1) + ": " + m.group(2)) if m else "test failed"
    elif ran and "test result: ok. 1 passed" in text:
        detail = "native replay passed (counterexample does not reproduce)"
    elif ran and rc != 0:
        reproduced, detail = True, "native replay aborted (rc=%s): %s" % (rc, text[-300:].replace("\n", " | "))
    else:
        detail = "replay build/run error: " + text[-600:].replace("\n", " | ")
    # persist replay file
    rdir = os.path.join(VERIF, "replays", run.pid)
    os.makedirs(rdir, exist_ok=True)
    hsh = hashlib.sha1(json.dumps(pb["vals"]).encode()).hexdigest()[:12]
    path = os.path.join(rdir, "%s-%s.json" % (h["name"], hsh))
    with open(path, "w") as f:
        json.dump({
            "property": run.pid, "harness": h["name"], "module": h["module"], "features": h.get("features", []),
            "replay_models": use_models, "failed_check": pb["desc"], "concrete_vals": pb["vals"],
            "native_outcome": detail, "reproduced": reproduced,
            "how": "check --replay <this file>: rebuilds a scratch copy of /repo's working tree with the harness module, "
                   "feeds concrete_vals to kani::any() in order (Kani concrete playback) and runs the harness natively",
        }, f, indent=1)
    if not run.keep:
        shutil.rmtree(d, ignore_errors=True)
    return reproduced, path, detail


def load_known():
    p = os.path.join(VERIF, "known_findings.json")
    if not os.path.exists(p):
        return {"findings": [], "fixed": []}
    return json.load(open(p))


def match_known(known, pid, hname, desc):
    for k in known.get("findings", []):
        if k["property"] == pid and k["harness"] == hname and k["check_contains"] in desc:
            return k
    return None


def cmd_check(args):
    pid = args.property
    tier = args.tier or os.environ.get("VERIF_TIER") or "quick"
    if tier not in ("quick", "thorough"):
        tier = "quick"
    try:
        seed = int(os.environ.get("VERIF_SEED", "0"))
    except ValueError:
        seed = 0
    if pid != "DEV":
        hs = registry.select(pid, tier)
    else:
        if os.environ.get("VERIF_DEV_TIER") == "disabled":
            hs = [h for h in registry.HARNESSES if "disabled" in h["props"].values()]
        else:
            hs = [h for h in registry.HARNESSES if args.only or tier == "thorough" or "quick" in h["props"].values()]
    if args.only:
        hs = [h for h in hs if any(o in h["name"] for o in args.only)]
    if not hs:
        log(f"verif: no harness registered for {pid} at tier {tier}")
        return 2
    # seed only permutes scheduling order among equal-cost harnesses (there is no sampling)
    sign = 1 if pid == "DEV" else -1
    hs = sorted(hs, key=lambda h: (sign * h.get("timeout", 600), hashlib.sha1((str(seed) + h["name"]).encode()).hexdigest()))
    run = Run(pid, tier, seed, keep=args.keep)
    known = load_known()
    t0 = time.time()
    results = {}
    try:
        # build dependencies once per flavour (first harness of each flavour runs alone first)
        with cf.ThreadPoolExecutor(max_workers=MAX_PROCS) as ex:
            futs = {ex.submit(run.run_harness, h): h for h in hs}
            for fut in cf.as_completed(futs):
                h = futs[fut]
                res = fut.result()
                results[h["name"]] = res
                log(f"  [{res['class']:>14}] {h['name']:<40} {res['wall_s']:>7.1f}s rss={res['peak_rss_gb']}G checks={res['checks']} "
                    f"clauses={res['clauses']} {res.get('why', '')}")
        violations, knowns, inconclusive, nonrepro = [], [], [], []
        for h in hs:
            res = results[h["name"]]
            expect_fail = h.get("expect") == "fail"
            if res["class"] == "inconclusive":
                inconclusive.append((h, res))
                continue
            if res["class"] == "pass":
                if expect_fail:
                    # a known-finding witness harness that no longer fails: the finding is gone
                    log(f"NOTE: known-finding witness {h['name']} no longer fails (defect repaired?)")
                    res["note"] = "known-finding witness passes now"
                continue
            # counterexample(s): replay the playback test of each distinct failed check
            pbs = [p for p in res["playback"] if p["kind"] != "cover"]
            if not pbs:
                inconclusive.append((h, dict(res, why="counterexample without playback values")))
                continue
            res["replays"] = []
            seen = set()
            for i, pb in enumerate(pbs):
                if pb["desc"] in seen:
                    continue
                seen.add(pb["desc"])
                rep, path, detail = replay_native(run, h, res, pb, i)
                k = match_known(known, pid, h["name"], pb["desc"])
                entry = {"check": pb["desc"], "reproduced": rep, "replay": path, "native": detail, "known": bool(k)}
                res["replays"].append(entry)
                if not rep:
                    nonrepro.append((h, entry))
                elif k:
                    knowns.append((h, entry, k))
                else:
                    violations.append((h, entry))
        for h, e, k in knowns:
            log(f"KNOWN-FINDING: property={pid} {k['what']} [harness {h['name']}: {e['check']}; native: {e['native']}]")
        for h, e in violations:
            log(f"VIOLATION property={pid} replay={e['replay']}")
            log(f"  harness {h['name']}: {e['check']} -- native replay: {e['native']}")
        for h, e in nonrepro:
            log(f"INCONCLUSIVE: counterexample of {h['name']} ({e['check']}) did not reproduce natively: {e['native']}")
        for h, res in inconclusive:
            log(f"INCONCLUSIVE: {h['name']}: {res.get('why')}")
            if res.get("tail") and args.verbose:
                log(res["tail"])
        wall = time.time() - t0
        if pid != "DEV":
            write_evidence(run, hs, results, violations, knowns, inconclusive, nonrepro, wall)
        if violations:
            return 1
        if inconclusive or nonrepro:
            return 2
        return 0
    finally:
        if args.keep:
            log("scratch kept at", run.base)
        run.cleanup()


def write_evidence(run, hs, results, violations, knowns, inconclusive, nonrepro, wall):
    samples, funcs, assumptions, stubs = [], set(), set(), set()
    evaluations = 0
    nontrivial = 0
    solver_s = 0.0
    per = []
    for h in hs:
        r = results[h["name"]]
        evaluations += r["checks"] + len(r["covers"])
        if r["class"] in ("pass", "counterexample") and any(c["status"] == "SATISFIED" for c in r["covers"]):
            nontrivial += 1
        solver_s += r.get("solver_s") or 0.0
        funcs.update(h.get("funcs", []))
        assumptions.update(h.get("assumes", []))
        stubs.update(r.get("stubs", []))
        wit = [p for p in r["playback"] if p["kind"] == "cover"]
        per.append({
            "harness": h["name"], "verdict": r["class"], "why": r.get("why"), "bound": h.get("bound", ""),
            "kani_checks": r["checks"], "covers": [c["status"] for c in r["covers"]], "vccs": r["vccs"],
            "variables": r["vars"], "clauses": r["clauses"], "symex_steps": r["symex_steps"],
            "solver_s": r["solver_s"], "kani_verification_s": r["verif_time"], "wall_s": r["wall_s"], "peak_rss_gb": r.get("peak_rss_gb"),
            "replays": r.get("replays", []),
        })
        if wit:
            samples.append({"harness": h["name"], "bound": h.get("bound", ""),
                            "cover_witness_kani_any_values": wit[0]["vals"][:24]})
        else:
            samples.append({"harness": h["name"], "bound": h.get("bound", "")})
    models = sorted({m for h in hs for m in h.get("models", registry.DEFAULT_MODELS)})
    ev = {
        "property_id": run.pid,
        "tier": run.tier,
        "seed": run.seed,
        "level": "model_checking",
        "coverage": {
            "evaluations": evaluations,
            "distinct_nontrivial": nontrivial,
            "rule": "one evaluation = one CBMC property (Rust panic/overflow/index/assert check or cover) decided by the SAT "
                    "back end for ALL values of the harness's kani::any() inputs inside the stated bound; a harness counts as "
                    "non-trivial only if its reachability cover came back SATISFIED (not vacuous) and it reached a verdict",
            "samples": samples,
            "exhaustive": False,
            "technique": "bounded model checking of the real compiled code (Kani 0.68 -> CBMC 6.11 -> CaDiCaL), unwinding "
                         "assertions on; counterexamples replayed natively before being reported",
            "functions_encoded": sorted(funcs),
            "harnesses": per,
            "solver_time_s": round(solver_s, 2),
            "models_and_stubs": models + sorted(stubs),
            "source_sha256": run.hashes,
            "known_findings_matched": [k["id"] for _h, _e, k in knowns],
            "inconclusive": [h["name"] for h, _ in inconclusive] + [h["name"] for h, _ in nonrepro],
        },
        "assumptions": sorted(assumptions) + [
            "third-party crates replaced by contract-level models: " + ", ".join(models),
            "nothing is claimed outside the per-harness bounds listed in coverage.harnesses[].bound",
        ],
        "wall_s": round(wall, 1),
        "violations": len(violations),
    }
    os.makedirs(os.path.join(VERIF, "evidence"), exist_ok=True)
    with open(os.path.join(VERIF, "evidence", run.pid + ".json"), "w") as f:
        json.dump(ev, f, indent=1)


def cmd_replay(path):
    rp = json.load(open(path))
    h = registry.by_name(rp["harness"])
    run = Run(rp["property"], "quick", 0)
    try:
        pb = {"vals": rp["concrete_vals"], "desc": rp["failed_check"]}
        rep, _p, detail = replay_native(run, h, None, pb, 0)
        log(("REPRODUCED: " if rep else "NOT REPRODUCED: ") + detail)
        return 1 if rep else 0
    finally:
        run.cleanup()


def main():
    ap = argparse.ArgumentParser()
    ap.add_argument("property", nargs="?")
    ap.add_argument("--tier")
    ap.add_argument("--only", action="append")
    ap.add_argument("--keep", action="store_true")
    ap.add_argument("--verbose", action="store_true")
    ap.add_argument("--replay")
    ap.add_argument("--list", action="store_true")
    a = ap.parse_args()
    if a.list:
        for h in registry.HARNESSES:
            log(h["name"], h["props"])
        return 0
    if a.replay:
        return cmd_replay(a.replay)
    if not a.property:
        ap.error("property id required")
    return cmd_check(a)


if __name__ == "__main__":
    sys.exit(main())
