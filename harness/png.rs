//! C09 / C04 harnesses for src/filters/png.rs (child module: sees private items).
use super::*;

/// PNG specification 9.4, written from the text: p = a + b - c; nearest of a, b, c, ties in that order.
fn ref_paeth(a: u8, b: u8, c: u8) -> u8 {
    let (ia, ib, ic) = (a as i32, b as i32, c as i32);
    let p = ia + ib - ic;
    let pa = if p >= ia { p - ia } else { ia - p };
    let pb = if p >= ib { p - ib } else { ib - p };
    let pc = if p >= ic { p - ic } else { ic - p };
    if pa <= pb && pa <= pc {
        a
    } else if pb <= pc {
        b
    } else {
        c
    }
}

/// PNG 9.2 reconstruction of one scanline. `prev` is the previous *reconstructed* line.
fn ref_unfilter<const N: usize>(ft: u8, bpp: usize, prev: &[u8; N], cur: &[u8; N], len: usize) -> [u8; N] {
    let mut out = [0u8; N];
    let mut i = 0;
    while i < len {
        let a: u8 = if i >= bpp { out[i - bpp] } else { 0 };
        let b: u8 = prev[i];
        let c: u8 = if i >= bpp { prev[i - bpp] } else { 0 };
        let x = cur[i];
        out[i] = match ft {
            0 => x,
            1 => x.wrapping_add(a),
            2 => x.wrapping_add(b),
            3 => x.wrapping_add(((a as u16 + b as u16) / 2) as u8),
            _ => x.wrapping_add(ref_paeth(a, b, c)),
        };
        i += 1;
    }
    out
}

#[kani::proof]
fn c09_paeth() {
    let a: u8 = kani::any();
    let b: u8 = kani::any();
    let c: u8 = kani::any();
    assert!(paeth_predict(a, b, c) == ref_paeth(a, b, c));
    kani::cover!(true);
}

fn row_harness<const N: usize>(ft: u8, max_bpp: usize) {
    let prev: [u8; N] = kani::any();
    let cur: [u8; N] = kani::any();
    let bpp: usize = kani::any();
    kani::assume(bpp >= 1 && bpp <= max_bpp);
    let len: usize = kani::any();
    kani::assume(len <= N);
    let mut work = cur;
    let filter: FilterType = match ft.try_into() {
        Ok(f) => f,
        Err(()) => unreachable!(),
    };
    decode_row(filter, bpp, &prev[..len], &mut work[..len]);
    let exp = ref_unfilter::<N>(ft, bpp, &prev, &cur, len);
    let mut i = 0;
    while i < len {
        assert!(work[i] == exp[i], "decode_row differs from PNG 9.2 reconstruction");
        i += 1;
    }
    kani::cover!(len == N && bpp < N);
}

macro_rules! row_h {
    ($name:ident, $n:expr, $ft:expr, $maxbpp:expr, $unw:expr) => {
        #[kani::proof]
        #[kani::unwind($unw)]
        fn $name() {
            row_harness::<$n>($ft, $maxbpp);
        }
    };
}
row_h!(c09_row_none_4, 4, 0, 3, 6);
row_h!(c09_row_sub_4, 4, 1, 3, 6);
row_h!(c09_row_up_4, 4, 2, 3, 6);
row_h!(c09_row_avg_4, 4, 3, 3, 6);
row_h!(c09_row_paeth_4, 4, 4, 3, 6);

/// decode_frame directly (no dictionary): two rows of ROW bytes, bytes-per-pixel BPP, every filter
/// byte and data byte symbolic; invalid filter bytes are rejected; a truncated last row is an error.
fn frame_harness<const ROW: usize, const TOTAL: usize>(bpp: usize, cols: usize) {
    let data: [u8; TOTAL] = kani::any();
    let r = decode_frame(&data[..], bpp, cols);
    let f0 = data[0];
    let f1 = data[ROW + 1];
    if f0 <= 4 && f1 <= 4 {
        let zero = [0u8; ROW];
        let mut c0 = [0u8; ROW];
        let mut c1 = [0u8; ROW];
        let mut i = 0;
        while i < ROW {
            c0[i] = data[1 + i];
            c1[i] = data[ROW + 2 + i];
            i += 1;
        }
        let r0 = ref_unfilter::<ROW>(f0, bpp, &zero, &c0, ROW);
        let r1 = ref_unfilter::<ROW>(f1, bpp, &r0, &c1, ROW);
        match &r {
            Ok(v) => {
                assert!(v.len() == 2 * ROW, "decoded frame has the wrong length");
                let mut i = 0;
                while i < ROW {
                    assert!(v[i] == r0[i] && v[ROW + i] == r1[i], "decode_frame differs from PNG 9.2 reconstruction");
                    i += 1;
                }
            }
            Err(_) => panic!("well-formed predictor data rejected"),
        }
    } else {
        assert!(r.is_err(), "invalid PNG filter type byte must be rejected");
    }
    kani::cover!(f0 == 4 && f1 == 3);
    std::mem::forget(r);
}
#[kani::proof]
#[kani::unwind(6)]
fn c09_frame_row2_bpp1() {
    frame_harness::<2, 6>(1, 2);
}
#[kani::proof]
#[kani::unwind(6)]
fn c09_frame_row2_bpp2() {
    frame_harness::<2, 6>(2, 1);
}
#[kani::proof]
#[kani::unwind(7)]
fn c09_frame_row3_bpp3() {
    frame_harness::<3, 8>(3, 1);
}

/// A truncated final row is reported as an error (not a panic, not silently dropped data).
#[kani::proof]
#[kani::unwind(6)]
fn c09_frame_truncated() {
    let data: [u8; 5] = kani::any();
    kani::assume(data[0] <= 4 && data[3] <= 4);
    let r = decode_frame(&data[..], 1, 2);
    assert!(r.is_err(), "truncated last row must be an error");
    kani::cover!(true);
    std::mem::forget(r);
}
