//! Verification stub of `flate2` for the API subset lopdf uses.
//!
//! The compression algorithm itself is third-party, loop-heavy and outside every claim.  What lopdf
//! owns is the *plumbing* around it (which stage runs when, with which parameters, how `Length` is
//! maintained).  To make that plumbing observable the stub is a tagged, transparent codec:
//!   * decoder: output byte i = input byte i XOR 0x55            (TAG_INFLATE)
//!   * encoder: output = `enc_len()` bytes; under cfg(kani) the length is an arbitrary value
//!     0..=input.len()+2 ("a compressor may shrink or grow its input"), contents input XOR 0x55
//!     (cyclic) – the harness only relies on the length being arbitrary.
use std::io::{self, Read, Write};

pub const TAG_INFLATE: u8 = 0x55;

#[derive(Clone, Copy, Debug, PartialEq, Eq)]
pub struct Compression(u32);
impl Compression {
    pub const fn new(level: u32) -> Compression {
        Compression(level)
    }
    pub const fn none() -> Compression {
        Compression(0)
    }
    pub const fn fast() -> Compression {
        Compression(1)
    }
    pub const fn best() -> Compression {
        Compression(9)
    }
    pub fn level(&self) -> u32 {
        self.0
    }
}
impl Default for Compression {
    fn default() -> Compression {
        Compression(6)
    }
}

pub mod read {
    use super::*;
    pub struct ZlibDecoder<R> {
        inner: R,
    }
    impl<R: Read> ZlibDecoder<R> {
        pub fn new(r: R) -> ZlibDecoder<R> {
            ZlibDecoder { inner: r }
        }
        pub fn into_inner(self) -> R {
            self.inner
        }
    }
    impl<R: Read> Read for ZlibDecoder<R> {
        fn read(&mut self, buf: &mut [u8]) -> io::Result<usize> {
            let n = self.inner.read(buf)?;
            let mut i = 0;
            while i < n {
                buf[i] ^= TAG_INFLATE;
                i += 1;
            }
            Ok(n)
        }
        /// Direct implementation (std's default `read_to_end` with its adaptive probing is very
        /// expensive to execute symbolically and is not part of any claim).
        fn read_to_end(&mut self, buf: &mut Vec<u8>) -> io::Result<usize> {
            let start = buf.len();
            let n = self.inner.read_to_end(buf)?;
            let mut i = start;
            while i < buf.len() {
                buf[i] ^= TAG_INFLATE;
                i += 1;
            }
            Ok(n)
        }
    }
}

pub mod write {
    use super::*;
    pub struct ZlibEncoder<W: Write> {
        inner: Option<W>,
        fed: Vec<u8>,
    }
    impl<W: Write> ZlibEncoder<W> {
        pub fn new(w: W, _level: Compression) -> ZlibEncoder<W> {
            ZlibEncoder { inner: Some(w), fed: Vec::new() }
        }
        pub fn finish(mut self) -> io::Result<W> {
            let mut w = self.inner.take().unwrap();
            let n_in = self.fed.len();
            #[cfg(kani)]
            let n_out: usize = {
                let n: usize = kani::any();
                kani::assume(n <= n_in + 2);
                n
            };
            #[cfg(not(kani))]
            let n_out: usize = n_in;
            let mut i = 0;
            while i < n_out {
                let b = if n_in == 0 { 0 } else { self.fed[i % n_in] ^ TAG_INFLATE };
                w.write_all(&[b])?;
                i += 1;
            }
            Ok(w)
        }
    }
    impl<W: Write> Write for ZlibEncoder<W> {
        fn write(&mut self, buf: &[u8]) -> io::Result<usize> {
            self.fed.extend_from_slice(buf);
            Ok(buf.len())
        }
        fn flush(&mut self) -> io::Result<()> {
            Ok(())
        }
    }
}
