//! C02 / C07 harnesses for src/xref.rs.
use super::*;

fn mk(present: bool, off: u32) -> Option<XrefEntry> {
    if present {
        Some(XrefEntry::Normal { offset: off, generation: 0 })
    } else {
        None
    }
}

/// Xref::merge(older): for every id the newer table's entry wins; ids only the older table has are
/// added (ISO 32000-1 7.5.6: the most recent cross-reference section takes precedence).
/// Shape concrete (newer = {1,2,4}, older = {2,3,4}), offsets/kinds symbolic.
#[kani::proof]
#[kani::unwind(8)]
fn c07_xref_merge_newest_wins() {
    let mut newer = Xref::new(5, XrefType::CrossReferenceTable);
    let mut older = Xref::new(5, XrefType::CrossReferenceTable);
    let on: [u32; 3] = kani::any();
    let oo: [u32; 3] = kani::any();
    let newer4_compressed: bool = kani::any();
    newer.insert(1, XrefEntry::Normal { offset: on[0], generation: 0 });
    newer.insert(2, XrefEntry::Normal { offset: on[1], generation: 0 });
    newer.insert(4, if newer4_compressed { XrefEntry::Compressed { container: on[2], index: 1 } } else { XrefEntry::Free });
    older.insert(2, XrefEntry::Normal { offset: oo[0], generation: 0 });
    older.insert(3, XrefEntry::Normal { offset: oo[1], generation: 0 });
    older.insert(4, XrefEntry::Normal { offset: oo[2], generation: 0 });
    newer.merge(older);
    assert!(matches!(newer.get(1), Some(XrefEntry::Normal { offset, .. }) if *offset == on[0]), "entry of the newer table lost");
    assert!(matches!(newer.get(2), Some(XrefEntry::Normal { offset, .. }) if *offset == on[1]), "newer entry replaced by older one");
    assert!(matches!(newer.get(3), Some(XrefEntry::Normal { offset, .. }) if *offset == oo[1]), "entry only present in the older table was not added");
    if newer4_compressed {
        assert!(matches!(newer.get(4), Some(XrefEntry::Compressed { container, index: 1 }) if *container == on[2]), "newer compressed entry replaced by older one");
    } else {
        assert!(matches!(newer.get(4), Some(XrefEntry::Free)), "newer free entry replaced by older one");
    }
    assert!(newer.get(5).is_none());
    kani::cover!(on[1] != oo[0]);
    std::mem::forget(newer);
}

#[kani::proof]
#[kani::unwind(8)]
fn c02_xref_max_id() {
    let ids: [u32; 3] = kani::any();
    let mut x = Xref::new(0, XrefType::CrossReferenceTable);
    assert!(x.max_id() == 0);
    let mut i = 0;
    let mut m = 0u32;
    while i < 3 {
        x.insert(ids[i], XrefEntry::Free);
        if ids[i] > m {
            m = ids[i];
        }
        i += 1;
    }
    assert!(x.max_id() == m);
    kani::cover!(ids[0] > ids[1] && ids[1] > ids[2]);
    std::mem::forget(x);
}
