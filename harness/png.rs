//! C09 / C04 harnesses for src/filters/png.rs (child module: sees private items).
use super::*;

/// PNG specification 9.4, written from the text: p = a + b - c; nearest of a, b, c, ties in that order.
fn ref_paeth(a: u8, b: u8, c: u8) -> u8 {
    let (ia, ib, ic) = (a as i32, b as i32, c as i32);
    let p = ia + ib - ic;
    let pa = if p >= ia { p - ia } else { ia - p };
    let pb = if p >= ib { p - ib } else { ib - p };
    let pc = if p >= ic { p - ic } else { ic - p };
    if pa <= pb && pa <= pc {
        a
    } else if pb <= pc {
        b
    } else {
        c
    }
}

/// PNG 9.2 reconstruction of one scanline. `prev` is the previous *reconstructed* line.
fn ref_unfilter<const N: usize>(ft: u8, bpp: usize, prev: &[u8; N], cur: &[u8; N], len: usize) -> [u8; N] {
    let mut out = [0u8; N];
    let mut i = 0;
    while i < len {
        let a: u8 = if i >= bpp { out[i - bpp] } else { 0 };
        let b: u8 = prev[i];
        let c: u8 = if i >= bpp { prev[i - bpp] } else { 0 };
        let x = cur[i];
        out[i] = match ft {
            0 => x,
            1 => x.wrapping_add(a),
            2 => x.wrapping_add(b),
            3 => x.wrapping_add(((a as u16 + b as u16) / 2) as u8),
            _ => x.wrapping_add(ref_paeth(a, b, c)),
        };
        i += 1;
    }
    out
}

#[kani::proof]
fn c09_paeth() {
    let a: u8 = kani::any();
    let b: u8 = kani::any();
    let c: u8 = kani::any();
    assert!(paeth_predict(a, b, c) == ref_paeth(a, b, c));
    kani::cover!(true);
}

fn row_harness<const N: usize>(ft: u8, max_bpp: usize) {
    let prev: [u8; N] = kani::any();
    let cur: [u8; N] = kani::any();
    let bpp: usize = kani::any();
    kani::assume(bpp >= 1 && bpp <= max_bpp);
    let len: usize = kani::any();
    kani::assume(len <= N);
    let mut work = cur;
    let filter: FilterType = match ft.try_into() {
        Ok(f) => f,
        Err(()) => unreachable!(),
    };
    decode_row(filter, bpp, &prev[..len], &mut work[..len]);
    let exp = ref_unfilter::<N>(ft, bpp, &prev, &cur, len);
    let mut i = 0;
    while i < len {
        assert!(work[i] == exp[i], "decode_row differs from PNG 9.2 reconstruction");
        i += 1;
    }
    kani::cover!(len == N && bpp < N);
}

macro_rules! row_h {
    ($name:ident, $n:expr, $ft:expr, $maxbpp:expr, $unw:expr) => {
        #[kani::proof]
        #[kani::unwind($unw)]
        fn $name() {
            row_harness::<$n>($ft, $maxbpp);
        }
    };
}
row_h!(c09_row_none_4, 4, 0, 3, 6);
row_h!(c09_row_sub_4, 4, 1, 3, 6);
row_h!(c09_row_up_4, 4, 2, 3, 6);
row_h!(c09_row_avg_4, 4, 3, 3, 6);
row_h!(c09_row_paeth_4, 4, 4, 3, 6);
