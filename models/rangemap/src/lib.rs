//! Verification model of `rangemap::RangeInclusiveMap<u32, V>` for the API subset lopdf uses
//! (`new`, `insert`, `get_key_value`, `get`, `Default`, `Debug`).
//!
//! Documented contract implemented here (rangemap 1.x docs, `RangeInclusiveMap::insert`):
//!  * "If the inserted range partially or completely overlaps any existing range in the map, then
//!    the existing range (or ranges) will be partially or completely replaced by the inserted range."
//!    -> the non-overlapped remainders of older ranges stay, keeping (a clone of) their value;
//!  * "If the inserted range either overlaps or is immediately adjacent any existing range mapping
//!    to the same value, then the ranges will be coalesced into a single contiguous range."
//! Entries are kept in a Vec sorted by start; nothing is dropped (leaked) to keep drop glue out of
//! the model checker's way.
use core::ops::RangeInclusive;
use std::mem::ManuallyDrop;

pub struct RangeInclusiveMap<K, V> {
    e: ManuallyDrop<Vec<(RangeInclusive<K>, V)>>,
}
impl<K, V> Default for RangeInclusiveMap<K, V> {
    fn default() -> Self {
        RangeInclusiveMap { e: ManuallyDrop::new(Vec::new()) }
    }
}
impl<K: core::fmt::Debug, V: core::fmt::Debug> core::fmt::Debug for RangeInclusiveMap<K, V> {
    fn fmt(&self, f: &mut core::fmt::Formatter<'_>) -> core::fmt::Result {
        f.write_str("RangeInclusiveMap{..}")
    }
}

/// The model supports the key type lopdf uses (u32 source codes).
impl<V: Clone + PartialEq> RangeInclusiveMap<u32, V> {
    pub fn new() -> Self {
        Self::default()
    }
    pub fn len(&self) -> usize {
        self.e.len()
    }
    pub fn is_empty(&self) -> bool {
        self.e.is_empty()
    }
    pub fn get_key_value(&self, key: &u32) -> Option<(&RangeInclusive<u32>, &V)> {
        let mut i = 0;
        while i < self.e.len() {
            if *self.e[i].0.start() <= *key && *key <= *self.e[i].0.end() {
                return Some((&self.e[i].0, &self.e[i].1));
            }
            i += 1;
        }
        None
    }
    pub fn get(&self, key: &u32) -> Option<&V> {
        self.get_key_value(key).map(|(_, v)| v)
    }
    pub fn contains_key(&self, key: &u32) -> bool {
        self.get_key_value(key).is_some()
    }
    pub fn insert(&mut self, range: RangeInclusive<u32>, value: V) {
        assert!(range.start() <= range.end(), "range start must not exceed end");
        let (mut lo, mut hi) = (*range.start(), *range.end());
        let old = std::mem::take(&mut *self.e);
        let mut out: Vec<(RangeInclusive<u32>, V)> = Vec::with_capacity(old.len() + 2);
        // 1. carve the new range out of every older range; coalesce equal-valued neighbours into it
        for (r, v) in old {
            let (s, t) = (*r.start(), *r.end());
            let overlaps = s <= hi && lo <= t;
            let adjacent = (t < lo && t + 1 == lo) || (hi < s && hi + 1 == s);
            if (overlaps || adjacent) && v == value {
                // same value: becomes part of the new contiguous range
                if s < lo {
                    lo = s;
                }
                if t > hi {
                    hi = t;
                }
                std::mem::forget(v);
            } else if overlaps {
                if s < lo {
                    out.push((s..=lo - 1, v.clone()));
                }
                if t > hi {
                    out.push((hi + 1..=t, v.clone()));
                }
                std::mem::forget(v);
            } else {
                out.push((r, v));
            }
        }
        // 2. insert the new range at its sorted position
        let mut pos = 0;
        while pos < out.len() && *out[pos].0.start() < lo {
            pos += 1;
        }
        out.insert(pos, (lo..=hi, value));
        *self.e = out;
    }
}
