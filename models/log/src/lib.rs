//! Verification stub of `log`: macros type-check their format arguments in dead code and emit nothing.
//! With no logger installed the real crate dispatches to a no-op logger, so observable behaviour is
//! identical; what is removed is the `dyn Log` dispatch and `fmt::Arguments` construction that
//! dominated symbolic execution (563 k symex steps for a 2-byte ASCII85 decode, almost all of it
//! the "missing EOD marker" warning).
#[macro_export]
macro_rules! __verif_log_nop {
    ($($arg:tt)*) => {{
        if false {
            let _ = ::core::format_args!($($arg)*);
        }
    }};
}
#[macro_export]
macro_rules! error { ($($arg:tt)*) => { $crate::__verif_log_nop!($($arg)*) }; }
#[macro_export]
macro_rules! warn { ($($arg:tt)*) => { $crate::__verif_log_nop!($($arg)*) }; }
#[macro_export]
macro_rules! info { ($($arg:tt)*) => { $crate::__verif_log_nop!($($arg)*) }; }
#[macro_export]
macro_rules! debug { ($($arg:tt)*) => { $crate::__verif_log_nop!($($arg)*) }; }
#[macro_export]
macro_rules! trace { ($($arg:tt)*) => { $crate::__verif_log_nop!($($arg)*) }; }
#[macro_export]
macro_rules! log_enabled { ($($arg:tt)*) => { false }; }
