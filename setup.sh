#!/bin/sh
# Offline setup: nothing to download. Pre-builds the dependency artefacts for kani (optional cache).
cd "$(dirname "$0")" || exit 1
mkdir -p evidence replays
python3 tools/vcheck.py --list >/dev/null || exit 1
exit 0
