#!/usr/bin/env python3
"""Runs the registered quick check of a seed's property against the seeded change.

usage: seed_eval.py <seed-dir-name> [...]        (e.g. C09_1)

For each seed: `git -C /repo apply seeded/<id>/patch.diff`, `./check <PROP> --tier quick`,
`git -C /repo checkout -- .` (always, even on failure), then writes seeded/<id>/meta.json with what
was run and whether the change was detected (exit code 1 + VIOLATION line).  Refuses to run when
/repo has uncommitted changes.
"""
import json
import os
import subprocess
import sys
import time

VERIF = os.path.dirname(os.path.dirname(os.path.abspath(__file__)))
REPO = "/repo"


def sh(cmd, **kw):
    return subprocess.run(cmd, shell=True, capture_output=True, text=True, **kw)


def main():
    for sid in sys.argv[1:]:
        d = os.path.join(VERIF, "seeded", sid)
        prop = sid.split("_")[0]
        if sh(f"git -C {REPO} status --porcelain -- src").stdout.strip():
            print("refusing: /repo has uncommitted changes in src/")
            return 2
        agent = json.load(open(os.path.join(d, "agent_meta.json")))
        r = sh(f"git -C {REPO} apply {d}/patch.diff")
        if r.returncode != 0:
            print(sid, "PATCH DOES NOT APPLY to current /repo:", r.stderr[:300])
            meta = {"property": prop, "applies_to_current_repo": False, "error": r.stderr[:300]}
            json.dump(meta, open(os.path.join(d, "meta.json"), "w"), indent=1)
            continue
        t0 = time.time()
        # the evidence file belongs to runs on the UNCHANGED tree: keep it out of the way and restore it
        ev = os.path.join(VERIF, "evidence", prop + ".json")
        saved = open(ev).read() if os.path.exists(ev) else None
        try:
            cmd = f"./check {prop} --tier quick"
            c = sh(cmd, cwd=VERIF)
        finally:
            sh(f"git -C {REPO} checkout -- .")
            if saved is not None:
                open(ev, "w").write(saved)
        out = c.stdout + c.stderr
        viol = [l for l in out.splitlines() if l.startswith("VIOLATION") or l.strip().startswith("harness ")]
        inconc = [l for l in out.splitlines() if l.startswith("INCONCLUSIVE")]
        meta = {
            "property": prop,
            "summary": agent.get("summary"),
            "needs_to_manifest": agent.get("needs_to_manifest"),
            "files_changed": agent.get("files_changed"),
            "confirmed_in_scratch_worktree": "tools/verify_seed.sh: demo passes on the clean tree, fails with the patch; suite (except annotation_count) still passes with the patch",
            "ran": f"git -C /repo apply seeded/{sid}/patch.diff && {cmd} ; git -C /repo checkout -- .",
            "check_exit_code": c.returncode,
            "detected": c.returncode == 1 and any(l.startswith("VIOLATION") for l in viol),
            "violation_lines": viol[:6],
            "inconclusive_lines": inconc[:6],
            "wall_s": round(time.time() - t0, 1),
        }
        json.dump(meta, open(os.path.join(d, "meta.json"), "w"), indent=1)
        print(sid, "exit", c.returncode, "DETECTED" if meta["detected"] else "missed", viol[:2], inconc[:2], flush=True)
    return 0


if __name__ == "__main__":
    sys.exit(main())
