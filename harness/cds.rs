//! C16 / C04 harnesses for src/common_data_structures/mod.rs (text strings).
use super::*;
use crate::verif_common::*;

fn obj_bytes(o: &Object) -> &[u8] {
    match o {
        Object::String(b, _) => b,
        _ => panic!("text_string must produce a String object"),
    }
}

/// ISO 32000-1 7.9.2.2: a text string is PDFDocEncoding or UTF-16BE with BOM FE FF.
/// Round trip for every string of exactly one Unicode scalar value.
#[kani::proof]
#[kani::unwind(8)]
fn c16_text_string_rt_1() {
    let c: char = kani::any();
    let mut b = [0u8; 4];
    let s: &str = c.encode_utf8(&mut b);
    let o = text_string(s);
    let bytes = obj_bytes(&o);
    if (c as u32) < 0x80 {
        // "ASCII stays PDFDocEncoding" whenever PDFDocEncoding can represent the character
        if (c as u32) >= 0x20 && (c as u32) < 0x7F {
            assert!(bytes.len() == 1 && bytes[0] == c as u8, "printable ASCII must stay one PDFDocEncoding byte");
        }
    } else {
        assert!(bytes.len() >= 4 && bytes[0] == 0xFE && bytes[1] == 0xFF, "non-ASCII text must be UTF-16BE with BOM");
    }
    let d = decode_text_string(&o);
    match &d {
        Ok(t) => {
            let mut it = t.chars();
            let first = it.next();
            let second = it.next();
            assert!(first == Some(c) && second.is_none(), "text string does not decode to the original character");
        }
        Err(_) => panic!("text string produced by text_string() is rejected by decode_text_string()"),
    }
    kani::cover!((c as u32) > 0xFFFF);
    kani::cover!((c as u32) < 0x20);
    std::mem::forget(d);
    std::mem::forget(o);
}

/// ASCII only (the PDFDocEncoding branch): every one-character ASCII string, including the C0
/// controls and DEL, round-trips.
#[kani::proof]
#[kani::unwind(6)]
fn c16_text_string_ascii_1() {
    let b: u8 = kani::any();
    kani::assume(b < 0x80);
    let buf = [b];
    let s = match std::str::from_utf8(&buf) {
        Ok(s) => s,
        Err(_) => unreachable!(),
    };
    let o = text_string(s);
    let d = decode_text_string(&o);
    match &d {
        Ok(t) => assert!(t.len() == 1 && t.as_bytes()[0] == b, "ASCII text string does not decode to the original character"),
        Err(_) => panic!("text string produced by text_string() is rejected by decode_text_string()"),
    }
    kani::cover!(b == 9);
    std::mem::forget(d);
    std::mem::forget(o);
}

/// Two scalar values (mixes ASCII / BMP / astral, so the "all ASCII?" decision and surrogate pairs interact).
#[kani::proof]
#[kani::unwind(12)]
fn c16_text_string_rt_2() {
    let c1: char = kani::any();
    let c2: char = kani::any();
    let mut s = String::with_capacity(8);
    s.push(c1);
    s.push(c2);
    let o = text_string(&s);
    let d = decode_text_string(&o);
    match &d {
        Ok(t) => {
            let mut it = t.chars();
            let a = it.next();
            let b = it.next();
            let e = it.next();
            assert!(a == Some(c1) && b == Some(c2) && e.is_none(), "text string does not decode to the original two characters");
        }
        Err(_) => panic!("text string produced by text_string() is rejected by decode_text_string()"),
    }
    kani::cover!((c1 as u32) < 0x80 && (c2 as u32) > 0xFFFF);
    std::mem::forget(d);
    std::mem::forget(o);
    std::mem::forget(s);
}

/// UTF-8 with byte-order mark (PDF 2.0): decoding returns the text (without the mark).
#[kani::proof]
#[kani::unwind(10)]
fn c16_text_string_utf8_bom() {
    let c: char = kani::any();
    let mut b = [0u8; 4];
    let s: &str = c.encode_utf8(&mut b);
    let bytes = encodings::encode_utf8(s);
    assert!(bytes.len() >= 4 && bytes[0] == 0xEF && bytes[1] == 0xBB && bytes[2] == 0xBF);
    let o = Object::String(bytes, StringFormat::Literal);
    let d = decode_text_string(&o);
    match &d {
        Ok(t) => {
            let mut it = t.chars();
            let first = it.next();
            let second = it.next();
            assert!(first == Some(c) && second.is_none(), "UTF-8 text string with BOM does not decode to the original character");
        }
        Err(_) => panic!("UTF-8 text string with BOM rejected"),
    }
    kani::cover!((c as u32) > 0xFFFF);
    std::mem::forget(d);
    std::mem::forget(o);
}

/// C04 / C16: arbitrary bytes (any BOM, odd-length UTF-16, lone surrogates, invalid UTF-8): value or error, never a panic.
macro_rules! dts_total {
    ($name:ident, $n:expr, $unw:expr) => {
        #[kani::proof]
        #[kani::unwind($unw)]
        fn $name() {
            let raw: [u8; $n] = kani::any();
            let o = Object::String(raw.to_vec(), StringFormat::Literal);
            let d = decode_text_string(&o);
            kani::cover!(d.is_ok() && raw[0] == 0xFE && raw[1] == 0xFF);
            kani::cover!(d.is_err());
            std::mem::forget(d);
            std::mem::forget(o);
        }
    };
}
dts_total!(c04_decode_text_string_3, 3, 8);
dts_total!(c04_decode_text_string_4, 4, 9);
dts_total!(c04_decode_text_string_5, 5, 10);
