#!/bin/sh
# Offline setup: nothing to download.  Sanity-checks the registry and guards the rangemap model
# (native differential run against the real crate; guards the model, not part of any solver claim).
cd "$(dirname "$0")" || exit 1
mkdir -p evidence replays
python3 tools/vcheck.py --list >/dev/null || exit 1
( cd tools/rangemap_model_check && CARGO_NET_OFFLINE=true CARGO_TARGET_DIR=/var/tmp/verif-rangemap-check cargo run --offline --release 2>&1 | tail -1; rm -rf /var/tmp/verif-rangemap-check ) || true
exit 0
