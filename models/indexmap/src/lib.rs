//! Verification model of `indexmap::IndexMap`: insertion-ordered association list.
//! Same observable contract for the API subset lopdf uses; no hashing.
use std::borrow::Borrow;

pub mod map {
    pub use super::{IndexMap, IntoIter, Iter, IterMut};
}

#[derive(Debug)]
pub struct IndexMap<K, V> {
    entries: std::mem::ManuallyDrop<Vec<(K, V)>>,
}

// Leak instead of dropping: lopdf's key/value types have no observable Drop behaviour and
// recursive drop glue of `Object` is the dominant cost for the model checker.
impl<K: Clone, V: Clone> Clone for IndexMap<K, V> {
    fn clone(&self) -> Self { IndexMap { entries: std::mem::ManuallyDrop::new((*self.entries).clone()) } }
}

impl<K, V> Default for IndexMap<K, V> {
    fn default() -> Self { IndexMap { entries: std::mem::ManuallyDrop::new(Vec::new()) } }
}

impl<K: PartialEq, V: PartialEq> PartialEq for IndexMap<K, V> {
    fn eq(&self, other: &Self) -> bool {
        if self.entries.len() != other.entries.len() { return false; }
        self.entries.iter().all(|(k, v)| other.get_inner(k).map_or(false, |v2| v == v2))
    }
}

pub struct Iter<'a, K, V> { inner: std::slice::Iter<'a, (K, V)> }
impl<'a, K, V> Iterator for Iter<'a, K, V> {
    type Item = (&'a K, &'a V);
    fn next(&mut self) -> Option<Self::Item> { self.inner.next().map(|e| (&e.0, &e.1)) }
}
pub struct IterMut<'a, K, V> { inner: std::slice::IterMut<'a, (K, V)> }
impl<'a, K, V> Iterator for IterMut<'a, K, V> {
    type Item = (&'a K, &'a mut V);
    fn next(&mut self) -> Option<Self::Item> { self.inner.next().map(|e| (&e.0, &mut e.1)) }
}
pub struct IntoIter<K, V> { inner: std::vec::IntoIter<(K, V)> }
impl<K, V> Iterator for IntoIter<K, V> {
    type Item = (K, V);
    fn next(&mut self) -> Option<Self::Item> { self.inner.next() }
}

impl<K, V> IndexMap<K, V> {
    pub fn new() -> Self { IndexMap { entries: std::mem::ManuallyDrop::new(Vec::new()) } }
    pub fn len(&self) -> usize { self.entries.len() }
    pub fn is_empty(&self) -> bool { self.entries.is_empty() }
    pub fn iter(&self) -> Iter<'_, K, V> { Iter { inner: self.entries.iter() } }
    pub fn iter_mut(&mut self) -> IterMut<'_, K, V> { IterMut { inner: self.entries.iter_mut() } }
    pub fn reserve_exact(&mut self, _n: usize) {}
    pub fn clear(&mut self) { self.entries.clear() }
}

impl<K: PartialEq, V> IndexMap<K, V> {
    fn get_inner(&self, key: &K) -> Option<&V> {
        self.entries.iter().find(|e| e.0 == *key).map(|e| &e.1)
    }
    fn pos<Q: ?Sized + PartialEq>(&self, key: &Q) -> Option<usize> where K: Borrow<Q> {
        let mut i = 0;
        while i < self.entries.len() {
            if self.entries[i].0.borrow() == key { return Some(i); }
            i += 1;
        }
        None
    }
    pub fn contains_key<Q: ?Sized + PartialEq>(&self, key: &Q) -> bool where K: Borrow<Q> { self.pos(key).is_some() }
    pub fn get<Q: ?Sized + PartialEq>(&self, key: &Q) -> Option<&V> where K: Borrow<Q> {
        match self.pos(key) { Some(i) => Some(&self.entries[i].1), None => None }
    }
    pub fn get_mut<Q: ?Sized + PartialEq>(&mut self, key: &Q) -> Option<&mut V> where K: Borrow<Q> {
        match self.pos(key) { Some(i) => Some(&mut self.entries[i].1), None => None }
    }
    pub fn insert(&mut self, key: K, value: V) -> Option<V> {
        match self.pos::<K>(&key) {
            Some(i) => { std::mem::forget(std::mem::replace(&mut self.entries[i].1, value)); None }
            None => { self.entries.push((key, value)); None }
        }
    }
    pub fn swap_remove<Q: ?Sized + PartialEq>(&mut self, key: &Q) -> Option<V> where K: Borrow<Q> {
        match self.pos(key) { Some(i) => Some(self.entries.swap_remove(i).1), None => None }
    }
}

impl<K, V> IntoIterator for IndexMap<K, V> {
    type Item = (K, V);
    type IntoIter = IntoIter<K, V>;
    fn into_iter(mut self) -> IntoIter<K, V> { IntoIter { inner: std::mem::take(&mut *self.entries).into_iter() } }
}
impl<'a, K, V> IntoIterator for &'a IndexMap<K, V> {
    type Item = (&'a K, &'a V);
    type IntoIter = Iter<'a, K, V>;
    fn into_iter(self) -> Iter<'a, K, V> { self.iter() }
}
impl<'a, K, V> IntoIterator for &'a mut IndexMap<K, V> {
    type Item = (&'a K, &'a mut V);
    type IntoIter = IterMut<'a, K, V>;
    fn into_iter(self) -> IterMut<'a, K, V> { self.iter_mut() }
}
