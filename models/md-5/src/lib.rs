//! Verification model of the `md-5` crate: a transparent **recording** hash.
//!
//! ISO 32000 defines keys and password hashes as MD5 of specific byte strings.  What lopdf owns is
//! the *construction of those byte strings* (order, truncation, byte order, number of rounds); MD5
//! itself is a trusted third-party primitive.  The model therefore
//!   * logs, for every finished digest, the exact message that was absorbed (`verif::msg(k)`), and
//!   * returns a cheap deterministic digest: bytes 0..16 of  (message padded with zeros, every
//!     later 16-byte block XOR-folded in, rotated by block number) with the message length folded
//!     into byte 15.  Equal messages give equal digests; harnesses compare the *logged messages*
//!     with the messages the ISO algorithms prescribe and re-derive expected keys with the same
//!     model function (`verif::model_digest`).
//! The log is a fixed array (no heap); the number of digests and message lengths are bounded and a
//! bound overflow fails an assertion (never silently truncated).
pub use digest::{self, Digest};
use digest::{
    generic_array::GenericArray, typenum::U16, FixedOutput, FixedOutputReset, HashMarker, Output, OutputSizeUser, Reset,
    Update,
};

pub mod verif {
    pub const MAX_MSG: usize = 96;
    pub const MAX_DIGESTS: usize = 4;
    pub struct Log {
        pub n: usize,
        pub len: [usize; MAX_DIGESTS],
        pub msg: [[u8; MAX_MSG]; MAX_DIGESTS],
    }
    static mut LOG: Log = Log { n: 0, len: [0; MAX_DIGESTS], msg: [[0; MAX_MSG]; MAX_DIGESTS] };

    pub fn reset() {
        unsafe {
            LOG.n = 0;
        }
    }
    pub fn count() -> usize {
        unsafe { LOG.n }
    }
    pub fn msg_len(k: usize) -> usize {
        unsafe { LOG.len[k] }
    }
    pub fn msg_byte(k: usize, i: usize) -> u8 {
        unsafe { LOG.msg[k][i] }
    }
    pub(crate) fn record(m: &[u8; MAX_MSG], len: usize) {
        unsafe {
            // the first MAX_DIGESTS messages are kept verbatim; later ones are only counted
            let k = LOG.n;
            if k < MAX_DIGESTS {
                LOG.len[k] = len;
                let mut i = 0;
                while i < MAX_MSG {
                    LOG.msg[k][i] = m[i];
                    i += 1;
                }
            }
            LOG.n += 1;
        }
    }
    /// The model digest as a pure function (harnesses use it to derive expected keys).
    pub fn model_digest(m: &[u8], len: usize) -> [u8; 16] {
        let mut out = [0u8; 16];
        let mut i = 0;
        while i < len {
            let blk = (i / 16) as u32;
            out[i % 16] ^= m[i].rotate_left(blk % 8);
            i += 1;
        }
        out[15] ^= len as u8;
        out[14] ^= 0x5A;
        out
    }
}

#[derive(Clone)]
pub struct Md5 {
    buf: [u8; verif::MAX_MSG],
    len: usize,
}
impl Default for Md5 {
    fn default() -> Self {
        Md5 { buf: [0; verif::MAX_MSG], len: 0 }
    }
}
impl HashMarker for Md5 {}
impl OutputSizeUser for Md5 {
    type OutputSize = U16;
}
impl Update for Md5 {
    fn update(&mut self, data: &[u8]) {
        let mut i = 0;
        while i < data.len() {
            assert!(self.len < verif::MAX_MSG, "md5 model: message longer than the log holds (bound exceeded)");
            self.buf[self.len] = data[i];
            self.len += 1;
            i += 1;
        }
    }
}
impl FixedOutput for Md5 {
    fn finalize_into(self, out: &mut Output<Self>) {
        verif::record(&self.buf, self.len);
        let d = verif::model_digest(&self.buf, self.len);
        *out = GenericArray::clone_from_slice(&d);
    }
}
impl Reset for Md5 {
    fn reset(&mut self) {
        self.len = 0;
        self.buf = [0; verif::MAX_MSG];
    }
}
impl FixedOutputReset for Md5 {
    fn finalize_into_reset(&mut self, out: &mut Output<Self>) {
        verif::record(&self.buf, self.len);
        let d = verif::model_digest(&self.buf, self.len);
        *out = GenericArray::clone_from_slice(&d);
        Reset::reset(self);
    }
}
